#!/bin/sh
# Offline setup: parse all specifications, byte-compile the harness, warm the build cache from /repo's working tree.
set -e
cd "$(dirname "$0")"
python3 -m compileall -q harness tools >/dev/null
for f in spec/*.tla; do
  case "$f" in spec/MC_*|spec/Judge*.tla|spec/Trace*.tla) ;; esac
done
/venv/bin/python harness/build.py >/dev/null
python3 tools/sany_all.py
echo setup ok
