#!/usr/bin/env python3
"""Regenerate MANIFEST.json from the table below (kept in one place so that it is always valid)."""
import json, os
VERIF = os.path.dirname(os.path.dirname(os.path.abspath(__file__)))

BASE_CMD = 'cd /repo && /venv/bin/python -m pytest -ra -q -p no:cacheprovider --timeout=900 --continue-on-collection-errors'

# id: (level, technique, text, note, design_ref)
CHECKS = {
    'C01': ('model_checking',
            'TLA+ reference semantics (PyTreeSem) + TLC-enumerated trees (TreeGen) replayed on the real code, judged by TLC (Judge.tla)',
            'TLC proves the round-trip laws RT1-RT3 on every forest of the TreeGen machine within the bounds and under every option '
            'combination; every dumped tree (sampled above the replay budget) and seeded random trees up to 40 nodes are flattened, rebuilt '
            'through three routes, re-flattened and refilled by the real optree, and TLC judges each recorded call against the specification '
            '(exact structural equality incl. key order, metadata, leaf identity).',
            'Trusted: TLC 1.8 + CommunityModules Json; harness projection/realisation (self-checked: project(realise(t)) = t on every case); '
            'out-of-tree -O1 build of the working tree behaves like the release build.', '5 C01'),
    'C02': ('model_checking',
            'differential against the TLA+ reference semantics (PyTreeSem.Flatten) on TLC-enumerated trees incl. all insertion permutations; TLC judge',
            'Layer D is the independent executable reference of the documented ordering / classification rules. TLC checks the None-removal, '
            'predicate-refinement, insertion-permutation and classification laws on every TreeGen forest (alphabet K: every insertion '
            'permutation of <=3..4 keys over int/str/float/ordered/unorderable keys); the real tree_flatten / tree_leaves / tree_structure / '
            'tree_replace_nones outputs for every dumped tree, HistGen history-built containers and random trees are compared by TLC with the reference.',
            'As C01. Partially ordered key types (frozenset) are outside the universe; key universe = int, str, float(x.5), an ordered user class, an unorderable user class.', '5 C02'),
    'C03': ('model_checking',
            'all eight traversal entry points + reductions on TLC-enumerated trees (incl. single malformed custom nodes, depth limit by offset) judged by TLC against PyTreeSem; '
            'TLC-enumerated programs stepping tree_iter while the heap / modes / registry change, every call judged by TLC against IterSem',
            'Every entry point is compared with layer D (hence with every other one): leaves by identity, full node arrays, paths, typed '
            'accessors, hash/repr of the returned treespecs, tree_is_leaf / all_leaves, the six reductions against Python folds; error '
            'classes for single-fault trees (TreeGen alphabet F places one malformed custom node at every position); RecursionError at exactly '
            'MAX_RECURSION_DEPTH+1 for 9 node kinds, bound to the model (MaxDepth=4) by offset.  The lazy entry point is also modelled as a '
            'stateful object over a mutable heap (IterSem / IterM: FreshAgrees, SnapshotDelivered proved by TLC on all programs of <= 4 calls) and '
            'every generated / simulated / random program is replayed; tree_leaves and undisturbed iterators must match (violation), disturbed ones are reported as model drift.',
            'As C01. Error parity is claimed for single-fault trees only (the iterator validates entries before descending, the flattener after).', '5 C03'),
    'C04': ('model_checking',
            'TLC laws on paths (Access(tree,path_i)=leaf_i, prefix-free) + real accessors applied/split/codified on TLC-enumerated trees, typing judged against the A4 table in TLA+',
            'TLC proves the path laws on every TreeGen tree; the real accessors are applied to the real tree (identity logged), split at every '
            'position, compared across three routes, codified and evaluated; TLC judges entry class / node type / kind / field name of every step.',
            'As C01. Custom nodes of the universe expose children through __getitem__ with their declared entries.', '5 C04'),
    'C05': ('model_checking',
            'recorded call logs of the six tree_map variants / traverse / walk on PairGen pairs, validated by TLC against the MapCalls semantics (FlattenUpTo alignment)',
            'TLC checks the prefix laws that make rest alignment well defined on every PairGen pair; the real code maps a recording function '
            'with 0..3 rests; TLC judges count, order, first-argument identity, rest subtrees (=FlattenUpTo of layer D), path/accessor '
            'argument, result tree, in-place variants returning the original object, identity and functor laws, and that a non-suffix rest '
            'raises ValueError with an empty call log.',
            'As C01. The relative order of f calls and unflatten_func calls is not constrained (pybind11 iterator look-ahead).', '5 C05'),
    'C06': ('model_checking',
            'SpecEq / hash-key laws on PairGen pairs (TLC) + real ==, !=, hash, set/dict membership on pairs, seven construction routes and cross-option flattenings judged by TLC',
            'TLC checks reflexivity, symmetry and SpecEq => equal documented hash key on every PairGen pair (identical, substituted, '
            'one-attribute edits, re-ordered dicts); the real ==/!=/hash of every dumped and random pair, of seven construction routes of '
            'the same structure and of the same tree under two option sets are judged against SpecEq; a == b must imply equal hashes.',
            'As C01. Hash VALUES are not modelled, only the implication and stability.', '5 C06'),
    'C07': ('model_checking',
            'three prefix definitions in TLA+ (SpecPrefix, FlattenUpTo, via paths) proved equivalent by TLC on PairGen; real is_prefix/<=/flatten_up_to/prefix_errors/tree_map judged by TLC',
            'TLC checks on every PairGen pair that the spec-vs-spec and spec-vs-tree definitions agree, that the returned subtrees partition '
            'the leaves, strictness and antisymmetry; the ten real comparison spellings, flatten_up_to (returned subtrees by identity), '
            'prefix_errors (never an exception) and tree_map-with-rest are judged on every dumped pair and on random pairs with re-orderings '
            'at several depths.',
            'As C01.', '5 C07'),
    'C08': ('model_checking',
            'encoding invariant + children/child/one_level/compose laws by TLC on TreeGen/PairGen; every inspection method, rebuild route, repr, compose and transform of real treespecs judged by TLC',
            'TLC checks WellFormed and the inspection / compose laws on every generated tree / pair; the real counts, kind, type, is_leaf, '
            'is_one_level, children, child(i)/entry(i) over [-n-1,n], entries, one_level, paths, accessors and repr (exact string) are judged '
            'against layer D; the root is rebuilt via transform / treespec_from_collection / named constructor; compose and transform on pairs.',
            'As C01. repr of function objects is compared with addresses erased.', '5 C08'),
    'C09': ('model_checking',
            'Lub (least upper bound in the prefix order) defined independently in TLA+; laws by TLC on pairs and triples; six real broadcast entry points judged by TLC',
            'TLC checks that Lub is commutative up to dict kind/order, idempotent, absorbs prefixes, and that the two-pass n-ary fold is the '
            'common suffix of triples; broadcast_to_common_suffix (incl. paths/accessors/entries of the result), tree_broadcast_prefix, '
            'broadcast_prefix, tree_broadcast_common, broadcast_common and tree_broadcast_map (recorded calls) are judged against Lub/Owner.',
            'As C01.', '5 C09'),
    'C10': ('model_checking',
            'Transpose index law / involution / result structure by TLC on all TreeGen forests; real tree_transpose and transpose_map variants judged by TLC on leaf identities',
            'TLC checks on every forest <<outer, inner>> the index law, involution, result = compose(inner, outer) and the rejections; the '
            'real functions are run on outer-of-inner trees of fresh leaves (and back) and with recording functions; positions judged by identity.',
            'As C01.', '5 C10'),
    'C11': ('model_checking',
            'Unpickle(Pickle(s), world) law by TLC over all sub-worlds of the registry; real pickle round trips in-process and in fresh interpreters replaying six registry histories, judged by TLC',
            'TLC checks that loading yields exactly s (every field) and the freshly flattened treespec, or fails iff a custom type is unknown '
            'to the loader, for every TreeGen tree x option x sub-world; the real blobs (all protocols) are loaded in the same process and in '
            'six fresh interpreters; TLC judges exact state, ==, hash, repr, paths, accessors, entries, children, unflatten. Malformed states sampled.',
            'As C01. Known finding: protocols 0/1 are unsupported by the binding (reported as KNOWN-FINDING).', '5 C11'),
    'C12': ('model_checking',
            'Registry.tla state machine + RegHist (all histories to a bound, TLC invariants and action properties Atomic/Isolation) + TraceRegistry: TLC validates every recorded step of real histories',
            'TLC checks VariantAgree, MirrorExact, Atomic and Isolation on every history of register/unregister calls with argument faults and '
            'warnings-as-errors up to the bound; each history (exhaustive short, TLC-simulated and random long ones) is replayed with fresh '
            'classes and 72 observations after EVERY call are validated by TLC against the model state.',
            'Trusted: TLC, Json module, the observation function of the driver (behavioural: which flatten function ran).', '5 C12'),
    'C13': ('model_checking',
            'Registry.tla with-block actions + RegHist (all well-nested enter/exit/raise sequences, restoration action property) + TraceRegistry validation of real context-manager histories',
            'TLC checks that leaving a block (normally or by exception through n blocks) restores the modes found on entry, for every sequence '
            'up to the bound; real nested context managers are driven through the same sequences and after every step the effective mode of '
            'every namespace is observed through nine entry points, get(dict) and round trips, and validated by TLC.',
            'As C12.', '5 C13'),
    'C15': ('fault_enumeration',
            'Engine.tla small-step machine (one action per segment between callbacks) with a fault index; TLC explores every fault point; each terminal state replayed on the real code; callback traces validated by TLC (TraceEngine)',
            'For every scenario tree x {flatten, map} x fault index 0..K TLC checks FaultClean / NoMissedFault / refinement of layer D / '
            'termination; each behaviour is replayed through 11 entry points with the fault injected at that callback: TLC validates the '
            'callback trace, Python checks exception identity, no partial result, zero refcount delta, unchanged global state, stable '
            'hash/repr, and that the operation works afterwards; plus a 17-operation catalogue fault-enumerated at every callback index.',
            'Single fault per run. Reference counts are read with sys.getrefcount after gc.collect on fresh objects.', '5 C15'),
    'C16': ('model_checking',
            'MutGen.tla reference machine with guarded reads enumerates mutation-under-traversal scenarios and their allowed outcomes; replay in child processes under normal and ASan+UBSan builds; depth cases judged by TLC (offset binding); confusion matrix',
            'TLC enumerates kind x traversal style x size x callback position x mutation and computes the allowed outcome; each is replayed '
            'through 7 entry points in a child process under both builds (crash, sanitizer report or outcome outside the allowed set = '
            'violation); depth limit +-2 for 9 kinds bound to the model by offset; every operation at the limit; 44 functions x 27 argument confusions.',
            'The specification cannot see an out-of-bounds read that returns a plausible value: the sanitizer build and the guarded-read outcome comparison are the observers. Only the enumerated matrices are covered.', '5 C16'),
    'C14': ('model_checking',
            'HeapHist.tla: all histories of mutate-source / mutate-each-hand-out / operand uses (succeeding and failing) / unregister / re-register / delete / gc; TLC invariant Immutable; each history replayed with full re-observation after every step, judged by TLC',
            'TLC checks Immutable on every history to the bound (and must violate it when a hand-out is declared aliased); each history is '
            'replayed on a tree with every dict kind, deque, namedtuple and a custom node with entries: after every step the treespec and '
            'four partner treespecs are fully re-observed, all inputs are compared with pre-call snapshots, leaves must not be retained, '
            'cycles through metadata must be collected.',
            'As C01. __getstate__ and PyTreeSpec.walk hand out internal lists; they are not among the methods the property lists and are only exercised, not asserted.', '5 C14'),
    'C17': ('model_checking',
            'Threads.tla: all interleavings at callback granularity under a GIL token and an explicit registry lock (TLC: deadlock freedom, no torn lookup, exactly-once, mutual exclusion); every terminal schedule replayed on real threads by a cooperative scheduler with a watchdog; preemptive stress',
            'TLC explores every interleaving of 2-3 code-shaped operations (flatten with is_leaf, registration with a class-attribute hook '
            'under the write lock, plain (un)registration, shared iterator) and checks NoDeadlock / NoTornLookup / ExactlyOnce / '
            'MutualExclusion; each distinct terminal schedule is replayed on real threads whose callbacks park on semaphores, so the real '
            'interleaving is the model behaviour; a hang (no progress 25 s, confirmed in isolation), an exception, a duplicated or lost leaf, '
            'or two winners of one registration is a violation; 24-thread preemptive stress with 1 us switch interval.',
            'GIL build of CPython 3.12 only; Py_GIL_DISABLED paths are compiled out. The as-found lock design (wait while holding the GIL) is kept in the model as a constant and must deadlock in TLC (vacuity guard).', '5 C17'),
    'C18': ('model_checking',
            'ClassGen.tla (trait vectors + cache machine with eviction/capacity; TLC invariant: answer = ground truth in every cache state) replayed on synthesised classes through engine and twins; sort and one-level twins judged by TLC against PyTreeSem',
            'TLC checks the cache machine for every history to the bound (and finds the stale-address counterexample when eviction is '
            'switched off); every trait vector and cache history is replayed on synthesised classes through the engine and the pure-Python '
            'twin; thousands of transient classes exceed the cap and reuse addresses (count reported); TotalOrderSorted vs '
            'utils.total_order_sorted vs engine on all key lists; tree_flatten_one_level vs engine view vs layer D on all one-level nodes.',
            'As C01. PyPy branches are not executable here. Partially ordered keys (frozenset) are compared twin-vs-engine only.', '5 C18'),
    'C19': ('model_checking',
            'LayoutGen.tla enumerates all field layouts with the layout rule (TLC: algebra of the rule); every layout built through decorator / make_dataclass / inherited x 8 flag sets and judged by TLC; partial configurations',
            'TLC checks the layout rule on every sequence of field descriptors to the bound; each layout is realised as classes through '
            'three construction routes and eight class-flag sets; children / metadata / entries / round trip with __post_init__ re-run / '
            'namespace isolation / rejections / equality with the dataclasses.dataclass twin are judged; optree.functools.partial over nested partials.',
            'As C01.', '5 C19'),
    'C20': ('model_checking',
            'RavelGen.tla tag model of ravel/unravel (TLC: both inverse laws, offsets, rejection rules on every leaf list to the bound); same leaf lists as real numpy / jax / torch arrays judged by TLC; numpy joint-promotion sweep',
            'TLC checks the inverse laws on every list of leaves (6 shapes incl. zero-size and rank 0, 4 dtype kinds); each is built on all '
            'three backends in narrow and wide dtypes, embedded in 5 structures x none_is_leaf; flat content, promoted dtype (backend joint '
            'promotion), unravel(ravel(t)) = t, ravel(unravel(v)) = v, rejections; all ordered dtype triples on numpy.',
            'Numeric fidelity of the array libraries is not claimed; elements are small integer tags.', '5 C20'),
}

NOT_YET = {}


def main():
    props = [json.loads(l) for l in open(os.path.join(VERIF, 'properties.jsonl'))]
    checks = []
    na = []
    for p in props:
        pid = p['id']
        if pid in CHECKS:
            level, tech, text, note, ref = CHECKS[pid]
            checks.append({
                'property_id': pid,
                'quick_cmd': f'./check {pid} --tier quick',
                'thorough_cmd': f'./check {pid} --tier thorough',
                'evidence_file': f'/verif/evidence/{pid}.json',
                'replay_cmd_template': './check ' + pid + ' --replay {path}',
                'engine': 'tlc+replay',
                'level_claimed': {'category': level, 'text': text, 'design_ref': 'DESIGN.md ' + ref},
                'level_note': note,
                'technique': tech,
            })
        else:
            na.append({'property_id': pid, 'reason': NOT_YET.get(pid, 'check not built yet in this round (planned in DESIGN.md section 5); no claim is made')})
    m = {
        'version': 1,
        'setup_cmd': './setup.sh',
        'hooks': {'guard': 'OPTREE_VERIF', 'enable': 'none needed: no hook is compiled into optree; checks observe through the public API',
                  'baseline_off_cmd': BASE_CMD, 'source_commits': [], 'add_only': True},
        'engines': [
            {'name': 'tlc', 'path': '/verif/spec', 'serves_properties': sorted(CHECKS), 'kind_free_text': 'TLA+ specifications checked by TLC 1.8 (exhaustive, bounded) and TLC as judge of recorded traces'},
            {'name': 'replay', 'path': '/verif/harness', 'serves_properties': sorted(CHECKS), 'kind_free_text': 'Python drivers that realise TLC-generated states/behaviours on the real optree (rebuilt from /repo) and record projected traces'},
        ],
        'checks': checks,
        'not_applicable': na,
        'notes': 'All checks rebuild the C++ extension from /repo working tree into /verif/.build/<hash> (harness/build.py) and never import /repo/optree/_C*.so.',
    }
    with open(os.path.join(VERIF, 'MANIFEST.json'), 'w') as fh:
        json.dump(m, fh, indent=1)
    print('checks:', len(checks), 'not_applicable:', len(na))


if __name__ == '__main__':
    main()
