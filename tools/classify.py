#!/usr/bin/env python3
"""Summarise the replay files of a property by failing clause set."""
import json, glob, collections, sys, os
sys.path.insert(0, os.path.dirname(os.path.abspath(__file__)))
from explain import st
pid = sys.argv[1]
seen = collections.Counter(); ex = {}
for f in glob.glob(f'/verif/replays/{pid}/*.json'):
    r = json.load(open(f))['record']
    k = tuple(r.get('clauses', [r.get('kind')]))
    seen[k] += 1; ex.setdefault(k, f)
for k, v in sorted(seen.items(), key=lambda x: -x[1]):
    c = json.load(open(ex[k]))['record'].get('case', {})
    print(v, k, ex[k])
    for name in ('t', 'a', 'b'):
        if name in c:
            print('   ', name, '=', st(c[name]))
    if 'cfg' in c:
        print('    cfg', {kk: vv for kk, vv in c['cfg'].items() if kk in ('nil', 'ns', 'modes', 'haspred', 'pk')})
