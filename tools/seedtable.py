#!/usr/bin/env python3
"""Regenerate the seeded-defect table of DESIGN.md (section 10) from seeded/*/meta.json."""
import glob, json, os, re
VERIF = os.path.dirname(os.path.dirname(os.path.abspath(__file__)))
rows = []
for f in sorted(glob.glob(os.path.join(VERIF, 'seeded', '*', 'meta.json'))):
    m = json.load(open(f))
    d = os.path.dirname(f)
    what = m.get('summary', '')
    if not what:
        # first bullet of the agent's notes that mentions the patch
        what = ''
    det = m.get('detected_by', {})
    caught = [c for c, v in det.items() if v.get('alarm')]
    missed = [c for c, v in det.items() if not v.get('alarm')]
    first = next((v.get('first', '') for c, v in det.items() if v.get('alarm')), '')
    rows.append((m['seed'], m.get('summary', ''), m.get('applies') or '-', 'yes' if m.get('demonstrated') else 'NO',
                 (m.get('repo_suite_with_patch') or '').split(' in ')[0], ', '.join(caught) or '—', ', '.join(missed) or '', first[:110]))
lines = ['| seed | change | demo discriminates | repo suite with patch | caught by | not caught by | first report |', '|---|---|---|---|---|---|---|']
for r in rows:
    lines.append(f'| {r[0]} | {r[1]} | {r[3]} | {r[4]} | {r[5]} | {r[6]} | {r[7]} |')
n = len(rows)
c = sum(1 for r in rows if r[5] != '—')
table = '\n'.join(lines) + f'\n\n{c} of {n} confirmed seeds are caught by the quick tier of at least one check.\n'
p = os.path.join(VERIF, 'DESIGN.md')
s = open(p).read()
if 'SEED-TABLE-PLACEHOLDER' in s:
    s = s.replace('SEED-TABLE-PLACEHOLDER', '<!-- seed-table-begin -->\n' + table + '<!-- seed-table-end -->')
else:
    s = re.sub(r'<!-- seed-table-begin -->.*?<!-- seed-table-end -->', lambda _: '<!-- seed-table-begin -->\n' + table + '<!-- seed-table-end -->', s, flags=re.S)
open(p, 'w').write(s)
print(c, 'of', n)
