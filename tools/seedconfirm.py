#!/usr/bin/env python3
"""Confirm seeded defects and measure which checks catch them.

For every /verif/seeded/<name>/patch.diff:
  1. scratch worktree of /repo HEAD under /tmp, apply the patch (git apply, then --3way, then patch --fuzz=3);
  2. build the extension in place; run demo.py with the patch (must fail) and against the clean build (must pass);
  3. optionally (--tests) run the repository's own suite with the patch (must pass);
  4. optionally (--detect) run the property's check with VERIF_SRC=<worktree> and record whether it alarms;
  5. write seeded/<name>/meta.json; remove the worktree.
usage: tools/seedconfirm.py [--tests] [--detect] [--only NAME,...] [--jobs N]
"""
import argparse, concurrent.futures, json, os, re, shutil, subprocess, sys, tempfile, time

VERIF = os.path.dirname(os.path.dirname(os.path.abspath(__file__)))
PY = '/venv/bin/python'


def sh(cmd, **kw):
    return subprocess.run(cmd, shell=isinstance(cmd, str), capture_output=True, text=True, **kw)


def build_inplace(wt):
    obj = tempfile.mkdtemp(prefix='seedobj', dir='/tmp')
    pyinc = sh([PY, '-c', "import sysconfig;print(sysconfig.get_path('include'))"]).stdout.strip()
    srcs = [os.path.join(wt, 'src', f) for f in os.listdir(os.path.join(wt, 'src')) if f.endswith('.cpp')] + \
           [os.path.join(wt, 'src/treespec', f) for f in os.listdir(os.path.join(wt, 'src/treespec')) if f.endswith('.cpp')]
    procs = [subprocess.Popen(['g++', '-O1', '-std=c++20', '-fPIC', '-fvisibility=hidden', '-w', f'-I{wt}/include', '-isystem',
                               '/venv/lib/python3.12/site-packages/torch/include', f'-I{pyinc}', '-c', s, '-o', os.path.join(obj, os.path.basename(s) + '.o')],
                              stdout=subprocess.PIPE, stderr=subprocess.STDOUT) for s in srcs]
    ok = all(p.wait() == 0 for p in procs)
    if ok:
        ok = sh(['g++', '-shared', '-o', os.path.join(wt, 'optree/_C.cpython-312-x86_64-linux-gnu.so')] + [os.path.join(obj, f) for f in os.listdir(obj)]).returncode == 0
    shutil.rmtree(obj, ignore_errors=True)
    return ok


def one(name, args):
    d = os.path.join(VERIF, 'seeded', name)
    prop = name.split('-')[0]
    meta = {'seed': name, 'property': prop, 'repo_head': sh(['git', '-C', '/repo', 'log', '--format=%h', '-1']).stdout.strip(), 'when': time.ctime()}
    wt = tempfile.mkdtemp(prefix='seedwt', dir='/tmp')
    os.rmdir(wt)
    try:
        sh(['git', '-C', '/repo', 'worktree', 'add', '-f', '--detach', wt, 'HEAD'])
        patch = os.path.join(d, 'patch.diff')
        how = None
        for how_, cmd in (('git apply', ['git', '-C', wt, 'apply', patch]), ('git apply --3way', ['git', '-C', wt, 'apply', '--3way', patch]),
                          ('patch --fuzz=3', f'cd {wt} && patch -p1 --fuzz=3 < {patch}')):
            r = sh(cmd)
            if r.returncode == 0 and 'conflict' not in (r.stdout + r.stderr).lower():
                how = how_
                break
            sh(['git', '-C', wt, 'checkout', '--', '.'])
        meta['applies'] = how
        if not how:
            meta['status'] = 'stale: the patch no longer applies to HEAD (the code it touches was changed by a fix commit)'
            return meta
        if not build_inplace(wt):
            meta['status'] = 'does not compile'
            return meta
        env = dict(os.environ, PYTHONPATH=wt, PYTHONHASHSEED='0')
        r = sh([PY, os.path.join(d, 'demo.py')], env=env, cwd='/tmp', timeout=600)
        meta['demo_with_patch_rc'] = r.returncode
        clean = sh(['python3', os.path.join(VERIF, 'harness/build.py')]).stdout.strip()
        r2 = sh([PY, os.path.join(d, 'demo.py')], env=dict(os.environ, PYTHONPATH=clean, PYTHONHASHSEED='0'), cwd='/tmp', timeout=600)
        meta['demo_on_clean_rc'] = r2.returncode
        meta['demonstrated'] = r.returncode != 0 and r2.returncode == 0
        if args.tests:
            t0 = time.time()
            rt = sh(f'cd {wt} && PYTHONPATH={wt} {PY} -m pytest -q -p no:cacheprovider --timeout=900 -x 2>&1 | tail -3', timeout=3000)
            meta['repo_suite_with_patch'] = rt.stdout.strip().splitlines()[-1] if rt.stdout.strip() else 'no output'
            meta['repo_suite_passes'] = bool(re.search(r'\d+ passed', meta['repo_suite_with_patch'])) and 'failed' not in meta['repo_suite_with_patch']
            meta['repo_suite_s'] = round(time.time() - t0)
        if args.detect:
            checks = [prop] + {'C15-1': ['C02'], 'C14-2': [], 'C01-2': ['C19'], 'C02-2': ['C16', 'C03'], 'C04-2': ['C19'], 'C08-1': ['C04'], 'C10-1': [], 'C06-4': ['C08']}.get(name, [])
            meta['detected_by'] = {}
            for c in checks:
                log = os.path.join(VERIF, '.tlc', f'seed-{name}-{c}.log')
                ev = os.path.join(VERIF, 'evidence', f'{c}.json')
                bak = ev + '.seedbak'
                if os.path.exists(ev):
                    shutil.copy(ev, bak)
                rc = subprocess.run([os.path.join(VERIF, 'check'), c, '--tier', 'quick'], env=dict(os.environ, VERIF_SRC=wt), cwd=VERIF,
                                    stdout=open(log, 'w'), stderr=subprocess.STDOUT).returncode
                out = open(log).read()
                first = next((l for l in out.splitlines() if l.startswith('  ') and 'VIOLATION' not in l), '')
                meta['detected_by'][c] = {'exit': rc, 'alarm': rc == 1 and 'VIOLATION' in out, 'first': first.strip()[:300]}
                if os.path.exists(bak):
                    shutil.move(bak, ev)
                shutil.rmtree(os.path.join(VERIF, 'replays', c), ignore_errors=True)
        meta['status'] = 'confirmed' if meta.get('demonstrated') else 'demo does not discriminate on current HEAD'
        return meta
    except Exception as ex:   # noqa: BLE001
        meta['status'] = f'error: {type(ex).__name__}: {ex}'
        return meta
    finally:
        sh(['git', '-C', '/repo', 'worktree', 'remove', '--force', wt])
        shutil.rmtree(wt, ignore_errors=True)


def main():
    ap = argparse.ArgumentParser()
    ap.add_argument('--tests', action='store_true')
    ap.add_argument('--detect', action='store_true')
    ap.add_argument('--only')
    ap.add_argument('--jobs', type=int, default=4)
    a = ap.parse_args()
    names = sorted(n for n in os.listdir(os.path.join(VERIF, 'seeded')) if os.path.exists(os.path.join(VERIF, 'seeded', n, 'patch.diff')))
    if a.only:
        names = [n for n in names if n in a.only.split(',')]
    os.makedirs(os.path.join(VERIF, '.tlc'), exist_ok=True)
    with concurrent.futures.ThreadPoolExecutor(1 if a.detect else a.jobs) as ex:
        for meta in ex.map(lambda n: one(n, a), names):
            p = os.path.join(VERIF, 'seeded', meta['seed'], 'meta.json')
            old = json.load(open(p)) if os.path.exists(p) else {}
            old.update(meta)
            json.dump(old, open(p, 'w'), indent=1)
            print(meta['seed'], meta.get('status'), meta.get('applies'), 'suite:', meta.get('repo_suite_passes'),
                  'detected:', {k: v['alarm'] for k, v in meta.get('detected_by', {}).items()}, flush=True)


if __name__ == '__main__':
    main()
