#!/usr/bin/env python3
"""SANY-parse every module under spec/ (each from a scratch copy so that no tool output lands in spec/)."""
import os, subprocess, sys, shutil, tempfile
VERIF = os.path.dirname(os.path.dirname(os.path.abspath(__file__)))
spec = os.path.join(VERIF, 'spec')
d = tempfile.mkdtemp(prefix='sany', dir=os.path.join(VERIF, '.tlc') if os.path.isdir(os.path.join(VERIF, '.tlc')) else None)
bad = 0
try:
    for f in os.listdir(spec):
        if f.endswith('.tla'):
            shutil.copy(os.path.join(spec, f), d)
    for f in sorted(os.listdir(d)):
        if not f.endswith('.tla'):
            continue
        p = subprocess.run(['java', '-cp', '/opt/veriftools/tla/tla2tools.jar:/opt/veriftools/tla/CommunityModules-deps.jar', 'tla2sany.SANY', f],
                           cwd=d, capture_output=True, text=True)
        if p.returncode != 0 or 'Semantic errors' in p.stdout or 'Parse Error' in p.stdout or '*** Errors' in p.stdout:
            bad += 1
            sys.stderr.write(f'SANY failed on {f}\n{p.stdout[-800:]}\n')
finally:
    shutil.rmtree(d, ignore_errors=True)
sys.exit(1 if bad else 0)
