#!/bin/sh
# Demonstrates that the binding binds: corrupt one recorded field of a real trace / case and require rejection by TLC.
# (Not a MANIFEST check; documentation of the machinery's sensitivity.)
cd "$(dirname "$0")/.."
exec python3 tools/selftest.py "$@"
