#!/bin/sh
# usage: tools/sweep.sh "1 2 3" [tier]     -- run every check for each seed on the current tree; print one line per run.
# A VIOLATION or machinery failure on the unchanged tree is a bug of the machinery (or a new finding): look at replays/.
cd "$(dirname "$0")/.."
TIER=${2:-quick}
mkdir -p .tlc
for s in $1; do
  for c in C01 C02 C03 C04 C05 C06 C07 C08 C09 C10 C11 C12 C13 C14 C15 C16 C17 C18 C19 C20; do
    VERIF_SEED=$s ./check $c --tier $TIER > .tlc/sweep_${c}_$s.log 2>&1
    echo "seed=$s $c exit=$? $(tail -n 1 .tlc/sweep_${c}_$s.log)"
  done
done
