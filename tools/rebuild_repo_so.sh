#!/bin/sh
# Rebuild the git-ignored /repo/optree/_C*.so in place from /repo's sources (needed after a C++ "fix:" commit so that the
# repository's own suite exercises the repaired engine).  Same offline recipe as harness/build.py, at -O2.
set -e
OBJ=$(mktemp -d /tmp/reposo.XXXXXX)
PYINC=$(/venv/bin/python -c "import sysconfig;print(sysconfig.get_path('include'))")
ls /repo/src/*.cpp /repo/src/treespec/*.cpp | xargs -P 16 -I{} sh -c 'g++ -O2 -std=c++20 -fPIC -fvisibility=hidden -w -I/repo/include -isystem /venv/lib/python3.12/site-packages/torch/include -I'$PYINC' -c {} -o '$OBJ'/$(basename {}).o'
g++ -shared -o /repo/optree/_C.cpython-312-x86_64-linux-gnu.so $OBJ/*.o
rm -rf $OBJ
echo rebuilt
