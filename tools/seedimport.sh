#!/bin/sh
# usage: tools/seedimport.sh <agent-out-dir> <PROPERTY> <first-index>   -- copy patchN.diff / demoN.py / notes.md of a sub-agent into seeded/<PROPERTY>-<k>/
set -e
OUT=$1; P=$2; K=$3
cd "$(dirname "$0")/.."
for n in 1 2; do
  [ -f $OUT/patch$n.diff ] || continue
  D=seeded/$P-$K
  mkdir -p $D
  cp $OUT/patch$n.diff $D/patch.diff
  cp $OUT/demo$n.py $D/demo.py
  [ -f $OUT/notes.md ] && cp $OUT/notes.md $D/notes.md
  echo imported $D
  K=$((K+1))
done
