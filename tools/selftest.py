#!/usr/bin/env python3
import copy, json, os, subprocess, sys
VERIF = os.path.dirname(os.path.dirname(os.path.abspath(__file__)))
sys.path.insert(0, VERIF)
from harness.core import Run
from harness import tla
from harness.checks import treefam as F, regfam as R, iterfam as I

run = Run('SELFTEST', 'quick', 0)
ok = True


def expect(name, cond):
    global ok
    print(('PASS ' if cond else 'FAIL ') + name)
    ok &= bool(cond)


# 1. Judge: a real flatten / inspect / pair case, then corrupted copies
wd = os.path.join(tla.WORK, 'selftest')
os.makedirs(wd, exist_ok=True)
trees = F.random_trees(7, 30, max_nodes=12)
F.write_work(os.path.join(wd, 'w.ndjson'), [{'t': t, 'cfgs': [F.CFGS[0]]} for t in trees])
p = run.drive('harness.drivers.d_tree', [os.path.join(wd, 'w.ndjson'), os.path.join(wd, 'c.ndjson'), 'flatten,roundtrip,inspect'])
cases = [json.loads(l) for l in open(os.path.join(wd, 'c.ndjson'))]
expect('judge accepts the uncorrupted cases', run.judge(cases, 'st0') == [])
bad = []
for c in cases:
    c = copy.deepcopy(c)
    if c['op'] == 'flatten' and len(c['outs'][0].get('leaves', [])) >= 2:
        c['outs'][0]['leaves'][0], c['outs'][0]['leaves'][1] = c['outs'][0]['leaves'][1], c['outs'][0]['leaves'][0]
        bad.append(('swap two leaves', c))
        break
for c in cases:
    c = copy.deepcopy(c)
    if c['op'] == 'flatten' and c['outs'][2].get('accs') and c['outs'][2]['accs'][0]:
        c['outs'][2]['accs'][0][0]['ecls'] = 'GetAttrEntry'
        bad.append(('change an entry class', c))
        break
for c in cases:
    c = copy.deepcopy(c)
    if c['op'] == 'roundtrip' and c['rebuilt'] and c['rebuilt'][0].get('tree', {}).get('ch'):
        c['rebuilt'][0]['tree']['id'] = c['t']['id']
        bad.append(('rebuilt container is the SAME object', c))
        break
for c in cases:
    c = copy.deepcopy(c)
    if c['op'] == 'inspect' and c['out']['num_nodes'] > 2:
        c['out']['children'][0]['nodes'][-1]['nn'] += 1
        bad.append(('off-by-one in a child subtree size', c))
        break
fails = run.judge([c for _, c in bad], 'st1')
expect(f'judge rejects every corrupted case ({[n for n, _ in bad]})', len(fails) == len(bad))
# 2. TraceRegistry: flip one observation
hs = R.random_histories('both', 5, 12, 3)
inp, outp = os.path.join(wd, 'h.ndjson'), os.path.join(wd, 't.ndjson')
with open(inp, 'w') as fh:
    for i, h in enumerate(hs):
        fh.write(json.dumps({'tid': i + 1, 'calls': h}) + '\n')
run.drive('harness.drivers.d_reg', [inp, outp])
traces = [json.loads(l) for l in open(outp)]
traces[0]['ev'][-1]['obs']['look'][3] = 7
traces[1]['ev'][0]['res'] = 'Value' if traces[1]['ev'][0]['res'] == '' else ''
with open(outp, 'w') as fh:
    for t in traces:
        fh.write(json.dumps(t) + '\n')
r = tla.run_tlc('selftest-tr', 'TraceRegistry', open(os.path.join(tla.SPEC, 'TraceRegistry.cfg')).read(), env={'TRACES': outp}, workers=1)
failed = {t[1] for t in tla.prints(r.out, 'FAIL')}
done = {t[1] for t in tla.prints(r.out, 'DONE')}
expect('TraceRegistry rejects the two corrupted traces and accepts the rest', failed == {1, 2} and done == {3, 4, 5})
# 3. IterSem: a recorded iterator program with one result changed / one mutation dropped from the record
progs = I.random_programs(40, 30, 11)
inp, outp = os.path.join(wd, 'ip.ndjson'), os.path.join(wd, 'it.ndjson')
F.write_work(inp, progs)
run.drive('harness.drivers.d_iter', [inp, outp])
its = [json.loads(l) for l in open(outp)]
expect('IterSem accepts the recorded iterator programs', run.judge(its, 'st-it0') == [])
bad = []
for c in its:
    c = copy.deepcopy(c)
    ks = [k for k, x in enumerate(c['calls']) if x['op'] == 'next' and x['res'] and x['res'][0] >= 10]
    if ks:
        c['calls'][ks[-1]]['res'] = [c['calls'][ks[-1]]['res'][0] + 1]
        bad.append(c)
    if len(bad) == 5:
        break
for c in its:
    c = copy.deepcopy(c)
    # drop a recorded `clear` of a container that an iterator reads afterwards: the trace no longer explains the later results
    ks = [k for k, x in enumerate(c['calls']) if x['op'] == 'mutate' and x['e'] == 'clear' and x['res'] == []]
    for k in ks:
        d = copy.deepcopy(c)
        del d['calls'][k]
        bad.append(d)
fails = run.judge(bad, 'st-it1')
expect(f'IterSem rejects the 5 traces with a changed __next__ result and at least one trace with a dropped mutation ({len(fails)} of {len(bad)} rejected)',
       {i for i, _ in fails} >= set(range(5)) and len(fails) > 5)
print('selftest', 'ok' if ok else 'FAILED')
sys.exit(0 if ok else 1)
