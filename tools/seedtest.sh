#!/bin/sh
# usage: tools/seedtest.sh <patch.diff> <CHECK-ID> [tier]
# Applies the patch to a scratch worktree of /repo (outside /repo and /verif), runs the check against it
# (VERIF_SRC), prints the verdict lines and removes the worktree again.  Evidence/replay files written by this run are
# moved aside to .tlc/seedruns so that committed evidence always comes from the unchanged tree.
set -e
PATCH=$(realpath "$1"); ID=$2; TIER=${3:-quick}
WT=$(mktemp -d /tmp/seedwt.XXXXXX)
git -C /repo worktree add -f --detach "$WT" HEAD >/dev/null 2>&1
trap 'git -C /repo worktree remove --force "$WT" >/dev/null 2>&1; rm -rf "$WT"' EXIT
git -C "$WT" apply "$PATCH"
cd /verif
mkdir -p .tlc/seedruns
cp evidence/$ID.json .tlc/seedruns/$ID.evidence.bak 2>/dev/null || true
set +e
VERIF_SRC="$WT" ./check $ID --tier $TIER > .tlc/seedruns/$ID.$(basename $(dirname $PATCH)).$(basename $PATCH).log 2>&1
RC=$?
set -e
grep -E "^(VIOLATION|KNOWN-FINDING|C[0-9]+ \[|machinery)" .tlc/seedruns/$ID.$(basename $(dirname $PATCH)).$(basename $PATCH).log | head -5
echo "exit=$RC"
cp .tlc/seedruns/$ID.evidence.bak evidence/$ID.json 2>/dev/null || true
rm -rf replays/$ID
