#!/usr/bin/env python3
"""Annotate a replay file: evaluate the specification on the recorded inputs (TLC) and print expected vs actual."""
import json, os, sys
VERIF = os.path.dirname(os.path.dirname(os.path.abspath(__file__)))
sys.path.insert(0, VERIF)
from harness import tla   # noqa: E402


def st(t):
    if not isinstance(t, dict) or 'k' not in t:
        return repr(t)
    k = t['k']
    if k == 'leaf':
        return f"L{t['id']}"
    if k == 'none':
        return 'None'
    s = k + (f"#{t['cls']}" if t['cls'] else '') + (f"m{t['meta']}" if t['meta'] else '') + (f"@{t['id']}" if t['id'] > 0 else '')
    if t['keys']:
        return s + '{' + ', '.join(f"{tuple(kk)}:{st(ch)}" for kk, ch in zip(t['keys'], t['ch'])) + '}'
    return s + '(' + ', '.join(st(x) for x in t['ch']) + ')'


def expected(case, module='Judge'):
    wd = os.path.join(tla.WORK, 'explain')
    os.makedirs(wd, exist_ok=True)
    path = os.path.join(wd, 'case.ndjson')
    with open(path, 'w') as fh:
        fh.write(json.dumps(case) + '\n')
    text = f'''---- MODULE Explain ----
EXTENDS {module}
ASSUME PrintT(<<"EXPECT", Expected(Cases[1])>>)
ASSUME PrintT(<<"VERDICT", Verdict(Cases[1])>>)
====
'''
    r = tla.run_tlc('explain-tlc', 'Explain', 'SPECIFICATION Spec\n', extra_modules={'Explain': text}, workers=1, env={'CASES': path}, timeout=120)
    e = tla.prints(r.out, 'EXPECT')
    v = tla.prints(r.out, 'VERDICT')
    return (e[0][1] if e else None), (v[0][1] if v else r.out[-1500:])


def thaw(v):
    if isinstance(v, dict):
        return {k: thaw(x) for k, x in v.items()}
    if isinstance(v, (tuple, list)):
        return [thaw(x) for x in v]
    return v


if __name__ == '__main__':
    rec = json.load(open(sys.argv[1]))['record']
    c = rec['case']
    print('op', c['op'], c.get('via'), 'clauses', rec['clauses'])
    print('cfg', {k: v for k, v in c.get('cfg', {}).items() if k not in ('reg', 'maxdepth')})
    if 't' in c:
        print('t =', st(c['t']))
    e, v = expected(c, sys.argv[2] if len(sys.argv) > 2 else 'Judge')
    e = thaw(e)
    print('verdict', v)
    if c['op'] == 'unflatten':
        print('expected tree:', st(e.get('tree')) if isinstance(e, dict) and 'tree' in e else e)
        print('actual   tree:', st(c['out'].get('tree')) if c['out']['err'] == '' else c['out'])
    else:
        print('expected:', json.dumps(e)[:3000])
        print('actual  :', json.dumps(c.get('outs', c.get('out')))[:3000])
