"""TLA+ glue: value syntax (parse / print), TLC runner, dump reader."""
import json, os, re, shutil, subprocess, time, hashlib

VERIF = os.path.dirname(os.path.dirname(os.path.abspath(__file__)))
SPEC = os.path.join(VERIF, 'spec')
WORK = os.path.join(VERIF, '.tlc')
JAR = '/opt/veriftools/tla/tla2tools.jar:/opt/veriftools/tla/CommunityModules-deps.jar'


# ----------------------------------------------------------------------------------------------
# value syntax
# ----------------------------------------------------------------------------------------------
class FrozenDict(dict):
    def __hash__(self):
        return hash(frozenset(self.items()))


def to_tla(v):
    """Python -> TLA+ expression.  dict -> record (str keys) or function (int keys); list/tuple -> sequence;
    set/frozenset -> set; bool/int/str as is."""
    if isinstance(v, bool):
        return 'TRUE' if v else 'FALSE'
    if isinstance(v, int):
        return str(v) if v >= 0 else f'(0 - {-v})'
    if isinstance(v, str):
        assert '"' not in v and '\\' not in v
        return '"' + v + '"'
    if isinstance(v, (list, tuple)):
        return '<<' + ', '.join(to_tla(x) for x in v) + '>>'
    if isinstance(v, (set, frozenset)):
        return '{' + ', '.join(sorted(to_tla(x) for x in v)) + '}'
    if isinstance(v, dict):
        if not v:
            return '<<>>'
        if all(isinstance(k, str) for k in v):
            return '[' + ', '.join(f'{k} |-> {to_tla(x)}' for k, x in v.items()) + ']'
        return '(' + ' @@ '.join(f'{to_tla(k)} :> {to_tla(x)}' for k, x in v.items()) + ')'
    raise TypeError(v)


_tok = re.compile(r'\s*(<<|>>|\|->|:>|@@|[\[\]{}(),]|-?\d+|"(?:[^"\\]|\\.)*"|[A-Za-z_][A-Za-z0-9_]*)')


def parse_tla(s):
    """TLA+ value text (as printed by TLC) -> Python.  records -> dict, sequences -> tuple, sets -> frozenset,
    functions (a :> b @@ ...) -> dict."""
    toks = _tok.findall(s)
    pos = [0]

    def peek():
        return toks[pos[0]] if pos[0] < len(toks) else None

    def eat(t=None):
        x = toks[pos[0]]
        if t is not None and x != t:
            raise ValueError(f'expected {t} got {x} at {pos[0]}: {toks[max(0,pos[0]-5):pos[0]+5]}')
        pos[0] += 1
        return x

    def val():
        t = peek()
        if t == '<<':
            eat()
            out = []
            while peek() != '>>':
                out.append(val())
                if peek() == ',':
                    eat()
            eat('>>')
            return tuple(out)
        if t == '{':
            eat()
            out = []
            while peek() != '}':
                out.append(val())
                if peek() == ',':
                    eat()
            eat('}')
            return frozenset(out)
        if t == '[':
            eat()
            out = FrozenDict()
            while peek() != ']':
                k = eat()
                eat('|->')
                dict.__setitem__(out, k, val())
                if peek() == ',':
                    eat()
            eat(']')
            return out
        if t == '(':
            eat()
            out = FrozenDict()
            while peek() != ')':
                k = val()
                eat(':>')
                dict.__setitem__(out, k, val())
                if peek() == '@@':
                    eat()
            eat(')')
            return out
        eat()
        if t == 'TRUE':
            return True
        if t == 'FALSE':
            return False
        if t[0] == '"':
            return t[1:-1]
        if re.fullmatch(r'-?\d+', t):
            return int(t)
        return t  # model value / identifier

    v = val()
    return v


def read_dump(path):
    """Read a `tlc -dump` file (streaming: dumps can be gigabytes): yields dict var -> value for each state."""
    def parse_block(block):
        st = {}
        for m in re.finditer(r'^/\\ (\w+) = (.*?)(?=^/\\ \w+ = |\Z)', block, flags=re.M | re.S):
            st[m.group(1)] = parse_tla(m.group(2))
        if not st:          # a spec with a single variable is dumped without the conjunction bullet
            m = re.match(r'\s*(\w+) = (.*)\Z', block, flags=re.S)
            if m:
                st[m.group(1)] = parse_tla(m.group(2))
        return st
    buf, started = [], False
    with open(path) as fh:
        for line in fh:
            if re.match(r'^State \d+:\s*$', line):
                if started and buf:
                    yield parse_block(''.join(buf))
                buf, started = [], True
            elif started:
                buf.append(line)
    if started and buf:
        yield parse_block(''.join(buf))


# ----------------------------------------------------------------------------------------------
# TLC runner
# ----------------------------------------------------------------------------------------------
class TLCResult(dict):
    __getattr__ = dict.get


def run_tlc(name, module, cfg_text, *, extra_modules=None, workers=16, timeout=600, env=None, dump=False,
            simulate=None, depth=None, seed=None, coverage=False, deadlock=False, queue_dfs=False, heap='4g'):
    """Run TLC on spec/<module>.tla (or a generated module text passed via extra_modules) with the given cfg.
    Work dir: .tlc/<name>/ (module files are copied there so that generated wrappers can sit next to them)."""
    wd = os.path.join(WORK, name)
    shutil.rmtree(wd, ignore_errors=True)
    os.makedirs(wd)
    for f in os.listdir(SPEC):
        if f.endswith('.tla'):
            shutil.copy(os.path.join(SPEC, f), wd)
    for mname, text in (extra_modules or {}).items():
        with open(os.path.join(wd, mname + '.tla'), 'w') as fh:
            fh.write(text)
    cfg = os.path.join(wd, module + '.cfg')
    with open(cfg, 'w') as fh:
        fh.write(cfg_text)
    cmd = ['java', '-XX:+UseParallelGC', f'-Xmx{heap}']
    if queue_dfs:
        cmd.append('-Dtlc2.tool.queue.IStateQueue=StateDeque')
    cmd += ['-cp', JAR, 'tlc2.TLC', '-workers', str(workers), '-metadir', os.path.join(wd, 'meta'),
            '-noGenerateSpecTE', '-config', cfg]
    if not deadlock:
        cmd.append('-deadlock')  # disables deadlock checking
    dumpfile = None
    if dump:
        dumpfile = os.path.join(wd, 'dump')
        cmd += ['-dump', dumpfile]
        dumpfile += '.dump'
    if simulate:
        cmd += ['-simulate', simulate]
    if depth:
        cmd += ['-depth', str(depth)]
    if seed is not None:
        cmd += ['-seed', str(seed)]
    if coverage:
        cmd += ['-coverage', '1']
    cmd.append(os.path.join(wd, module + '.tla'))
    e = dict(os.environ)
    e.update(env or {})
    t0 = time.time()
    try:
        p = subprocess.run(cmd, cwd=wd, env=e, stdout=subprocess.PIPE, stderr=subprocess.STDOUT, timeout=timeout, text=True)
        out, rc, timed_out = p.stdout, p.returncode, False
    except subprocess.TimeoutExpired as ex:
        out = ex.stdout.decode() if isinstance(ex.stdout, bytes) else (ex.stdout or '')
        rc, timed_out = -1, True
    with open(os.path.join(wd, 'out.txt'), 'w') as fh:
        fh.write(out)
    r = TLCResult(out=out, rc=rc, timed_out=timed_out, wall=time.time() - t0, wd=wd, dump=dumpfile, cmd=' '.join(cmd))
    m = re.findall(r'(\d+) states generated,? (\d+) distinct states found', out.replace(',', ''))
    if m:
        r['generated'], r['distinct'] = int(m[-1][0]), int(m[-1][1])
    r['ok'] = ('Model checking completed. No error has been found.' in out) or (simulate is not None and rc == 0 and 'Error' not in out)
    m = re.search(r'Invariant (\w+) is violated', out)
    r['violated'] = m.group(1) if m else None
    if 'Deadlock reached' in out:
        r['violated'] = 'Deadlock'
    m = re.search(r'Temporal properties were violated|Action property (\w+) is violated', out)
    if m and not r['violated']:
        r['violated'] = m.group(1) or 'Temporal'
    r['error'] = None
    if not r['ok'] and not r['violated']:
        em = re.search(r'^Error: .*$', out, flags=re.M)
        r['error'] = em.group(0) if em else ('timeout' if timed_out else f'rc={rc}')
    return r


def error_trace(out):
    """Extract the states of a TLC counterexample as list of (label, {var: value})."""
    res = []
    for m in re.finditer(r'^State (\d+): <?([^>\n]*)>?\n(.*?)(?=^State \d+:|^\d+ states generated|\Z)', out, flags=re.M | re.S):
        st = {}
        for vm in re.finditer(r'^/\\ (\w+) = (.*?)(?=^/\\ \w+ = |\Z)', m.group(3), flags=re.M | re.S):
            try:
                st[vm.group(1)] = parse_tla(vm.group(2))
            except Exception:
                st[vm.group(1)] = vm.group(2).strip()
        res.append((m.group(2).strip(), st))
    return res


def prints(out, tag):
    """Collect PrintT(<<tag, ...>>) tuples from TLC output (bracket matching; robust to worker interleaving)."""
    res = []
    i = 0
    needle = re.compile(r'<<\s*"' + re.escape(tag) + '"')
    while True:
        m = needle.search(out, i)
        if not m:
            break
        j = m.start()
        depth, k = 0, j
        while k < len(out):
            if out.startswith('<<', k):
                depth += 1
                k += 2
                continue
            if out.startswith('>>', k):
                depth -= 1
                k += 2
                if depth == 0:
                    break
                continue
            k += 1
        try:
            res.append(parse_tla(out[j:k]))
        except Exception:
            pass
        i = k
    return res
