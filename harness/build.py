#!/venv/bin/python
"""Offline rebuild of optree's C++ extension from a source tree (default /repo) into
/verif/.build/<hash>/optree.  Never writes to the source tree.

usage: build.py [--src DIR] [--asan] [--print]
Prints the directory to put first on PYTHONPATH.
"""
import hashlib, os, subprocess, sys, sysconfig, shutil, glob, time, fcntl

VERIF = os.path.dirname(os.path.dirname(os.path.abspath(__file__)))
BUILD_ROOT = os.path.join(VERIF, '.build')
PY = '/venv/bin/python'
TORCH_INC = '/venv/lib/python3.12/site-packages/torch/include'


def tree_hash(src, flavour):
    h = hashlib.sha256((flavour + '|v2').encode())
    files = []
    for sub, pats in (('src', ('*.cpp',)), ('src/treespec', ('*.cpp',)), ('include/optree', ('*.h',)),
                      ('optree', ('*.py', '*.pyi')), ('optree/integration', ('*.py',))):
        for p in pats:
            files += glob.glob(os.path.join(src, sub, p))
    for f in sorted(files):
        h.update(os.path.relpath(f, src).encode())
        with open(f, 'rb') as fh:
            h.update(fh.read())
    return h.hexdigest()[:16]


_PYCFG = None


def pycfg():
    """include dir and extension suffix of the interpreter the checks run optree with (/venv/bin/python), whatever runs this script"""
    global _PYCFG
    if _PYCFG is None:
        out = subprocess.run([PY, '-c', "import sysconfig;print(sysconfig.get_path('include'));print(sysconfig.get_config_var('EXT_SUFFIX'))"],
                             capture_output=True, text=True, check=True).stdout.split()
        _PYCFG = (out[0], out[1])
    return _PYCFG


def build(src='/repo', asan=False, quiet=True):
    flavour = 'asan' if asan else 'norm'
    tag = tree_hash(src, flavour)
    out = os.path.join(BUILD_ROOT, f'{flavour}-{tag}')
    pkg = os.path.join(out, 'optree')
    stamp = os.path.join(out, '.ok')
    os.makedirs(BUILD_ROOT, exist_ok=True)
    lock = open(os.path.join(BUILD_ROOT, '.lock'), 'w')
    fcntl.flock(lock, fcntl.LOCK_EX)
    try:
        if os.path.exists(stamp):
            os.utime(stamp, None)          # mark as recently used
            return out
        # keep the cache small: drop builds of the same flavour that have not been used for a while (never one that another
        # check running concurrently may still be importing from), and never keep more than a handful
        now = time.time()
        others = sorted((d for d in glob.glob(os.path.join(BUILD_ROOT, f'{flavour}-*')) if d != out),
                        key=lambda d: os.path.getmtime(os.path.join(d, '.ok')) if os.path.exists(os.path.join(d, '.ok')) else 0, reverse=True)
        for i, d in enumerate(others):
            st = os.path.join(d, '.ok')
            age = now - os.path.getmtime(st) if os.path.exists(st) else 1e9
            if age > 6 * 3600 or i >= 5:
                shutil.rmtree(d, ignore_errors=True)
        shutil.rmtree(out, ignore_errors=True)
        os.makedirs(pkg)
        objdir = os.path.join(out, 'obj')
        os.makedirs(objdir)
        pyinc, ext_suffix = pycfg()
        if asan:
            cxx = ['clang++-14' if shutil.which('clang++-14') else 'clang++', '-O1', '-g', '-fno-omit-frame-pointer',
                   '-fsanitize=address,undefined', '-fno-sanitize=vptr,function', '-fno-sanitize-recover=undefined']
        else:
            cxx = ['g++', '-O1']
        common = cxx + ['-std=c++20', '-fPIC', '-fvisibility=hidden', '-w', f'-I{src}/include',
                        '-isystem', TORCH_INC, f'-I{pyinc}']
        cpps = sorted(glob.glob(os.path.join(src, 'src', '*.cpp')) + glob.glob(os.path.join(src, 'src', 'treespec', '*.cpp')))
        procs = []
        objs = []
        for c in cpps:
            o = os.path.join(objdir, os.path.basename(c) + '.o')
            objs.append(o)
            procs.append((c, subprocess.Popen(common + ['-c', c, '-o', o], stdout=subprocess.PIPE, stderr=subprocess.STDOUT)))
        for c, p in procs:
            outp = p.communicate()[0]
            if p.returncode != 0:
                sys.stderr.write(outp.decode(errors='replace'))
                raise SystemExit(f'build failed: {c}')
        so = os.path.join(pkg, '_C' + ext_suffix)
        link = cxx + ['-shared', '-o', so] + objs
        r = subprocess.run(link, stdout=subprocess.PIPE, stderr=subprocess.STDOUT)
        if r.returncode != 0:
            sys.stderr.write(r.stdout.decode(errors='replace'))
            raise SystemExit('link failed')
        shutil.rmtree(objdir)
        for f in glob.glob(os.path.join(src, 'optree', '*.py')) + glob.glob(os.path.join(src, 'optree', '*.pyi')) + [os.path.join(src, 'optree', 'py.typed')]:
            if os.path.exists(f):
                shutil.copy(f, pkg)
        shutil.copytree(os.path.join(src, 'optree', 'integration'), os.path.join(pkg, 'integration'),
                        ignore=shutil.ignore_patterns('__pycache__'))
        open(stamp, 'w').write(time.ctime())
        return out
    finally:
        fcntl.flock(lock, fcntl.LOCK_UN)
        lock.close()


def asan_env():
    rt = subprocess.run(['clang-14', '-print-file-name=libclang_rt.asan-x86_64.so'], capture_output=True, text=True).stdout.strip()
    if not os.path.exists(rt):
        rt = subprocess.run(['clang', '-print-file-name=libclang_rt.asan-x86_64.so'], capture_output=True, text=True).stdout.strip()
    return {'LD_PRELOAD': rt, 'PYTHONMALLOC': 'malloc',
            'ASAN_OPTIONS': 'detect_leaks=0:abort_on_error=1:allocator_may_return_null=1:handle_segv=1',
            'UBSAN_OPTIONS': 'print_stacktrace=1:halt_on_error=1'}


if __name__ == '__main__':
    import argparse
    ap = argparse.ArgumentParser()
    ap.add_argument('--src', default=os.environ.get('VERIF_SRC', '/repo'))
    ap.add_argument('--asan', action='store_true')
    a = ap.parse_args()
    t = time.time()
    d = build(a.src, a.asan)
    print(d)
