"""Check runner plumbing: build, TLC model runs, judge runs, violations / known findings, evidence."""
import hashlib, json, os, re, subprocess, sys, time

VERIF = os.path.dirname(os.path.dirname(os.path.abspath(__file__)))
sys.path.insert(0, VERIF)
from harness import tla, build as _build   # noqa: E402

PY = '/venv/bin/python'
VT = '/opt/veriftools/pyvenv/bin/python'
LEVELS = ('exploration', 'fault_enumeration', 'model_checking', 'proof', 'translation_validation', 'other')


def known_findings():
    p = os.path.join(VERIF, 'known_findings.json')
    if not os.path.exists(p):
        return []
    return json.load(open(p))


class Run:
    def __init__(self, pid, tier, seed, level='model_checking'):
        self.pid, self.tier, self.seed, self.level = pid, tier, seed, level
        self.t0 = time.time()
        self.src = os.environ.get('VERIF_SRC', '/repo')
        self.states = 0
        self.transitions = 0
        self.traces = 0
        self.evaluations = 0
        self.nontrivial = set()
        self.samples = []
        self.violations = []          # unlisted
        self.known_hits = {}          # finding id -> count
        self.notes = []
        self.rule = ''
        self.exhaustive = True
        self.tlc_runs = []
        self.assumptions = []
        self.machinery_errors = []
        self._build = None
        self._asan = None
        self.extra = {}

    # -- build ------------------------------------------------------------------------------
    def build(self, asan=False):
        if asan:
            if self._asan is None:
                self._asan = _build.build(self.src, asan=True)
            return self._asan
        if self._build is None:
            self._build = _build.build(self.src)
        return self._build

    def pyenv(self, asan=False, extra=None):
        e = dict(os.environ)
        e['PYTHONPATH'] = self.build(asan) + os.pathsep + VERIF
        e['VERIF_BUILD_DIR'] = self.build(asan)
        e['PYTHONHASHSEED'] = '0'
        e['VERIF_SEED'] = str(self.seed)
        e['VERIF_TIER'] = self.tier
        e['PYTHONDONTWRITEBYTECODE'] = '1'
        if asan:
            e.update(_build.asan_env())
        e.update(extra or {})
        return e

    def drive(self, module, args=(), asan=False, timeout=3600, extra_env=None, check=True):
        """Run a driver module (python -m harness.drivers.X) against the freshly built optree."""
        cmd = [PY, '-m', module] + [str(a) for a in args]
        try:
            p = subprocess.run(cmd, cwd=VERIF, env=self.pyenv(asan, extra_env), stdout=subprocess.PIPE, stderr=subprocess.PIPE,
                               text=True, timeout=timeout)
        except subprocess.TimeoutExpired:
            # a driver that does not come back is a finding about the code under test (non-termination), not a machinery failure
            class _T:
                returncode = -9
                stdout = ''
                stderr = f'timeout after {timeout}s'
                timed_out = True
            if check:
                self.violation({'kind': 'driver-crash-or-hang', 'driver': module, 'args': [str(a) for a in args][:3], 'rc': 'timeout',
                                'stderr': f'no result after {timeout}s'},
                               f'{module} did not come back within {timeout}s while exercising the engine: non-termination')
            return _T()
        if check and (p.returncode < 0 or p.returncode == 98):
            # killed by a signal (segfault, abort) or by the watchdog: the engine crashed / hung while being exercised for this
            # property - the operation did not deliver what the property promises
            self.violation({'kind': 'driver-crash-or-hang', 'driver': module, 'args': [str(a) for a in args][:3], 'rc': p.returncode,
                            'stderr': p.stderr[-800:]},
                           f'{module} was killed (rc={p.returncode}) while exercising the engine: crash or non-termination')
        elif check and p.returncode != 0:
            self.machinery(f'driver {module} failed rc={p.returncode}: {p.stderr[-2000:]}')
        return p

    # -- TLC on the specification -------------------------------------------------------------
    def tlc(self, name, module, cfg, **kw):
        r = tla.run_tlc(f'{self.pid}-{name}', module, cfg, **kw)
        self.tlc_runs.append({'name': name, 'module': module, 'generated': r.generated, 'distinct': r.distinct,
                              'wall_s': round(r.wall, 1), 'ok': r.ok, 'violated': r.violated})
        if r.distinct:
            self.states += r.distinct
            self.transitions += r.generated
        if r.error:
            self.machinery(f'TLC {name}: {r.error}  (see {r.wd}/out.txt)')
        return r

    # -- the judge ----------------------------------------------------------------------------
    def judge(self, cases, label, module='Judge', shards=16, timeout=3600):
        """cases: list of dicts.  Returns list of (index, clauses).  Every case counts as a validated trace.
        JSON loading is single-threaded inside one TLC, so the cases are split over `shards` parallel JVMs."""
        if not cases:
            return []
        import concurrent.futures, shutil
        shards = max(1, min(shards, (len(cases) + 199) // 200))
        cfg = open(os.path.join(tla.SPEC, module + '.cfg')).read()
        wd = os.path.join(tla.WORK, f'{self.pid}-{label}')
        os.makedirs(wd, exist_ok=True)
        parts = []
        per = (len(cases) + shards - 1) // shards
        for k in range(shards):
            chunk = cases[k * per:(k + 1) * per]
            if not chunk:
                continue
            path = os.path.join(wd, f'cases{k}.ndjson')
            with open(path, 'w') as fh:
                for c in chunk:
                    fh.write(json.dumps(c, separators=(',', ':')) + '\n')
            parts.append((k, k * per, len(chunk), path))
        t0 = time.time()

        def one(part):
            k, off, n, path = part
            r = tla.run_tlc(f'{self.pid}-{label}-tlc{k}', module, cfg, workers=max(1, 16 // len(parts)), timeout=timeout,
                            env={'CASES': path}, heap='3g')
            return part, r
        fails = {}
        with concurrent.futures.ThreadPoolExecutor(len(parts)) as ex:
            for (k, off, n, path), r in ex.map(one, parts):
                exp = 2 * n - 1
                if not r.ok or r.distinct != exp:
                    self.machinery(f'judge {label}[{k}]: TLC did not evaluate all cases (ok={r.ok}, distinct={r.distinct}, expected={exp}, '
                                   f'error={r.error}); see {r.wd}/out.txt')
                    continue
                for t in tla.prints(r.out, 'FAIL'):
                    fails[off + t[1] - 1] = list(t[2])
                os.remove(path)
                shutil.rmtree(r.wd, ignore_errors=True)
                self.traces += n
        self.tlc_runs.append({'name': 'judge-' + label, 'module': module, 'cases': len(cases), 'shards': len(parts),
                              'wall_s': round(time.time() - t0, 1)})
        return sorted(fails.items())

    # -- verdicts -------------------------------------------------------------------------------
    def machinery(self, msg):
        self.machinery_errors.append(msg)
        sys.stderr.write(f'MACHINERY: {msg}\n')

    def violation(self, record, what):
        """record: the replay record (JSON-able).  Classified against known_findings.json (committed)."""
        from harness import known
        fid = known.classify(self.pid, record)
        if fid is not None:
            self.known_hits.setdefault(fid, []).append(what)
            return fid
        h = hashlib.sha256(json.dumps(record, sort_keys=True, default=str).encode()).hexdigest()[:12]
        d = os.path.join(VERIF, 'replays', self.pid)
        os.makedirs(d, exist_ok=True)
        path = os.path.join(d, h + '.json')
        with open(path, 'w') as fh:
            json.dump({'property': self.pid, 'what': what, 'tier': self.tier, 'seed': self.seed, 'record': record}, fh, indent=1, default=str)
        if len(self.violations) < 20:
            print(f'VIOLATION property={self.pid} replay={path}')
            print(f'  {what}')
        self.violations.append(path)
        return None

    def sample(self, s):
        if len(self.samples) < 6:
            self.samples.append(s)

    def finish(self):
        from harness import known
        for fid, hits in sorted(self.known_hits.items()):
            print(f'KNOWN-FINDING: property={self.pid} {known.describe(fid)} [{len(hits)} instance(s) this run]')
        cov = {
            'states': self.states, 'transitions': self.transitions,
            'traces_validated_against_impl': self.traces,
            'evaluations': max(self.evaluations, self.traces, 1),
            'distinct_nontrivial': len(self.nontrivial) if isinstance(self.nontrivial, set) else int(self.nontrivial),
            'rule': self.rule,
            'samples': self.samples or ['(no sample recorded)'],
            'exhaustive': self.exhaustive,
            'tlc_runs': self.tlc_runs,
            'known_finding_instances': {k: len(v) for k, v in self.known_hits.items()},
        }
        cov.update(self.extra)
        ev = {'property_id': self.pid, 'tier': self.tier, 'seed': self.seed, 'level': self.level, 'coverage': cov,
              'assumptions': self.assumptions, 'wall_s': round(time.time() - self.t0, 1), 'violations': len(self.violations),
              'notes': self.notes}
        os.makedirs(os.path.join(VERIF, 'evidence'), exist_ok=True)
        with open(os.path.join(VERIF, 'evidence', self.pid + '.json'), 'w') as fh:
            json.dump(ev, fh, indent=1, default=str)
        if self.machinery_errors:
            print(f'machinery failure in {self.pid}: {len(self.machinery_errors)} error(s)')
            return 2
        if self.violations:
            return 1
        print(f'{self.pid} [{self.tier}] ok: states={self.states} traces={self.traces} nontrivial={cov["distinct_nontrivial"]} wall={ev["wall_s"]}s')
        return 0
