"""Generic replay of a recorded violation: re-execute the recorded input on the CURRENT build of /repo (or VERIF_SRC) and
judge it again with the same specification.  `./check <ID> --replay <file>`: exit 1 + VIOLATION if it still reproduces,
exit 0 if not."""
import json, os, shutil

from harness import tla
from harness.checks import treefam as F

TREE_OPS = {'flatten': 'flatten', 'roundtrip': 'roundtrip', 'inspect': 'inspect', 'c02laws': 'c02laws', 'c03extra': 'c03extra',
            'unflatten': 'roundtrip', 'fromcoll': 'fromcoll', 'depth': 'depth', 'class-object-leaf': 'classobj'}


def _drive_one(run, driver, item, extra_args, label='replay'):
    wd = os.path.join(tla.WORK, f'{run.pid}-{label}')
    shutil.rmtree(wd, ignore_errors=True)
    os.makedirs(wd)
    inp, outp = os.path.join(wd, 'in.ndjson'), os.path.join(wd, 'out.ndjson')
    F.write_work(inp, [item] if item is not None else [])
    p = run.drive(driver, [inp, outp] + extra_args)
    if p.returncode != 0 or not os.path.exists(outp):
        return None
    return [json.loads(l) for l in open(outp)]


def replay(run, path):
    doc = json.load(open(path))
    rec = doc['record']
    kind = rec.get('kind')
    case = rec.get('case', {})
    op = rec.get('op') or case.get('op')
    run.rule = f'replay of {path}'
    cases = None
    if kind == 'judge' and op in TREE_OPS:
        fam = TREE_OPS[op]
        item = None
        if fam not in ('depth', 'classobj'):
            item = {'t': case['t'], 'cfgs': [case['cfg']]}
            if 'hist' in case:
                item['hist'] = case['hist']
            if fam == 'fromcoll':
                item['kidcfgs'] = [c for c in F.CFGS if not c['haspred']]
        fams = fam if fam != 'flatten' else 'flatten,acclaws'
        cases = _drive_one(run, 'harness.drivers.d_tree', item, [fams])
    elif kind == 'judge' and op == 'pair':
        cases = _drive_one(run, 'harness.drivers.d_pair', {'a': case['a'], 'b': case['b'], 'cfgs': [case['cfg']]}, [','.join(case['fams'])])
    elif kind == 'judge' and op == 'xspec':
        cases = _drive_one(run, 'harness.drivers.d_pair', {'a': case['a'], 'b': case['b'], 'cfgs': [case['cfg1']], 'cfg2s': [case['cfg2']]}, ['xspec'])
    elif kind == 'judge' and op == 'xopt':
        cases = _drive_one(run, 'harness.drivers.d_xopt', {'t': case['t'], 'cfgs': [case['cfg1'], case['cfg2']]}, [])
    elif kind == 'judge' and op == 'map':
        cases = _drive_one(run, 'harness.drivers.d_map', {'a': case['a'], 'rests': case['rests'], 'cfgs': [case['cfg']]}, [])
    elif kind == 'judge' and op == 'transpose':
        cases = _drive_one(run, 'harness.drivers.d_transpose', {'a': case['a'], 'b': case['b'], 'cfgs': [case['cfg']]}, [])
    elif kind == 'judge' and op == 'itertrace':
        cases = _drive_one(run, 'harness.drivers.d_iter', {'shape': case['shape'], 'calls': case['calls']}, [])
    elif kind == 'judge' and op == 'heap':
        cases = _drive_one(run, 'harness.drivers.d_heap', {'tid': 1, 'hist': case['hist']}, [])
    elif kind == 'judge' and op in ('onelevel', 'sortkeys'):
        item = {'keys': case['keys']} if op == 'sortkeys' else {'t': case['t'], 'cfgs': [case['cfg']]}
        wd = os.path.join(tla.WORK, f'{run.pid}-replay')
        shutil.rmtree(wd, ignore_errors=True)
        os.makedirs(wd)
        inp, outp = os.path.join(wd, 'in.ndjson'), os.path.join(wd, 'out.ndjson')
        F.write_work(inp, [item])
        p = run.drive('harness.drivers.d_twin', ['trees', inp, outp])
        cases = [json.loads(l) for l in open(outp)] if p.returncode == 0 else None
        cases = [c for c in (cases or []) if c['op'] == op]
    elif kind == 'trace' and 'calls' in rec:
        from harness.checks import regfam as R
        n = R.replay_and_validate(run, 'replay', [rec['calls']], pre=rec.get('prebuilt_context_managers'))
        run.evaluations += n
        run.nontrivial = {1, 2}
        return
    if cases is None:
        # everything else (crashes, hangs, schedules, model-level counterexamples, fault runs): re-run the property's quick check
        import importlib
        mod = importlib.import_module(f'harness.checks.{run.pid.lower()}')
        mod.main(run)
        return
    fails = run.judge(cases, 'replay-judge')
    for idx, clauses in fails:
        run.violation({'kind': 'judge', 'op': cases[idx].get('op'), 'clauses': clauses, 'case': cases[idx]},
                      f'replay: {cases[idx].get("op")} still disagrees with the specification on {clauses}')
    run.evaluations += len(cases)
    run.nontrivial = {json.dumps(c)[:200] for c in cases} | {'replay'}
    run.sample({'replayed': path, 'cases': len(cases), 'still_failing': len(fails)})
