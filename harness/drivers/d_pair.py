"""Driver for pair operations (C06 eq/hash, C07 prefix x3, C08 compose/transform, C09 broadcast).

usage: python -m harness.drivers.d_pair IN.ndjson OUT.ndjson families
  IN: {"a": tree, "b": tree, "cfgs": [...]}     families: eq,prefix,broadcast,compose (comma list)
"""
import json, os, sys, multiprocessing as mp

from harness.drivers import pmap
import optree
from harness import vuniv as U
from harness.drivers.d_tree import proj_path, proj_acc


def g(fn):
    try:
        return {'err': '', 'v': fn()}
    except Exception as ex:   # noqa: BLE001
        return {'err': U.exc_class(ex), 'msg': str(ex)[:200]}


def run_pair(a, b, cfg, fams):
    ctx = U.Ctx()
    oa = U.realise(a, ctx)
    ob = U.realise(b, ctx)     # shares leaf objects with `a` where ids coincide
    kw = dict(none_is_leaf=cfg['nil'], namespace=cfg['ns'])
    case = {'op': 'pair', 'a': a, 'b': b, 'cfg': cfg, 'fams': fams}
    with U.modes(cfg['modes']):
        sa = optree.tree_structure(oa, **kw)
        sb = optree.tree_structure(ob, **kw)
        case['sa'], case['sb'] = U.project_spec(sa), U.project_spec(sb)
        if 'eq' in fams:
            # other construction routes of the same structure
            la = optree.tree_leaves(oa, **kw)
            routes = {'unflatten-reflatten': lambda: optree.tree_structure(optree.tree_unflatten(sa, la), **kw),
                      'transform-id': lambda: sa.transform(None, None),
                      'transform-fn': lambda: sa.transform(lambda s: s, lambda s: s),
                      'pickle': lambda: __import__('pickle').loads(__import__('pickle').dumps(sa)),
                      'compose-leaf': lambda: sa.compose(optree.treespec_leaf(none_is_leaf=cfg['nil'])),
                      'broadcast-self': lambda: sa.broadcast_to_common_suffix(sa),
                      'children-rebuild': lambda: (optree.treespec_from_collection(optree.tree_unflatten(sa.one_level(), sa.children()), **kw)
                                                   if sa.one_level() is not None else sa)}
            rs = []
            for name, fn in routes.items():
                r = g(fn)
                if r['err'] == '':
                    s2 = r['v']
                    rs.append({'route': name, 'err': '', 'eq': s2 == sa and sa == s2 and not (s2 != sa), 'hash': hash(s2) == hash(sa),
                               'spec': U.project_spec(s2), 'in_set': s2 in {sa}, 'dict_key': {sa: 1}.get(s2) == 1})
                else:
                    rs.append({'route': name, 'err': r['err']})
            case['eq'] = {'ab': sa == sb, 'ba': sb == sa, 'ne': sa != sb, 'aa': sa == sa and not (sa != sa), 'hash_eq': hash(sa) == hash(sb),
                          'hash_stable': hash(sa) == hash(sa), 'other_type': (sa == 1) is False and (sa != 1) is True, 'routes': rs}
        if 'prefix' in fams:
            pr = {}
            for name, fn in (('is_prefix', lambda: sa.is_prefix(sb)), ('is_prefix_strict', lambda: sa.is_prefix(sb, strict=True)),
                             ('is_suffix', lambda: sb.is_suffix(sa)), ('is_suffix_strict', lambda: sb.is_suffix(sa, strict=True)),
                             ('le', lambda: sa <= sb), ('lt', lambda: sa < sb), ('ge', lambda: sb >= sa), ('gt', lambda: sb > sa),
                             ('fn_is_prefix', lambda: optree.treespec_is_prefix(sa, sb)), ('fn_is_suffix', lambda: optree.treespec_is_suffix(sb, sa))):
                pr[name] = g(fn)
            case['prefix'] = pr
            r = g(lambda: sa.flatten_up_to(ob))
            if r['err'] == '':
                r['v'] = [U.project(x, ctx, fresh=True) for x in r['v']]
            case['flatten_up_to'] = r
            r = g(lambda: optree.prefix_errors(oa, ob, **kw))
            if r['err'] == '':
                r['v'] = len(r['v'])
            case['prefix_errors'] = r
            calls = []
            r = g(lambda: optree.tree_map(lambda x, y: calls.append(1) or x, oa, ob, **kw))
            case['tree_map'] = {'err': r['err'], 'calls': len(calls)}
        if 'broadcast' in fams:
            r = g(lambda: sa.broadcast_to_common_suffix(sb))
            if r['err'] == '':
                s = r['v']
                r['v'] = U.project_spec(s)
                r['paths'] = [proj_path(p) for p in s.paths()]
                r['accs'] = [proj_acc(x) for x in s.accessors()]
                r['entries'] = [U.proj_key(e) for e in s.entries()]
            case['bcs'] = r
            r = g(lambda: optree.tree_broadcast_prefix(oa, ob, **kw))
            if r['err'] == '':
                r['v'] = U.project(r['v'], ctx)
            case['tbp'] = r
            r = g(lambda: optree.broadcast_prefix(oa, ob, **kw))
            if r['err'] == '':
                r['v'] = U.leaf_ids(r['v'], ctx)
            case['bp'] = r
            r = g(lambda: optree.tree_broadcast_common(oa, ob, **kw))
            if r['err'] == '':
                r['v'] = [U.project(r['v'][0], ctx), U.project(r['v'][1], ctx)]
            case['tbc'] = r
            r = g(lambda: optree.broadcast_common(oa, ob, **kw))
            if r['err'] == '':
                r['v'] = [U.leaf_ids(r['v'][0], ctx), U.leaf_ids(r['v'][1], ctx)]
            case['bc'] = r
            calls = []
            r = g(lambda: optree.tree_broadcast_map(lambda x, y: calls.append((ctx.id_of(x), ctx.id_of(y))) or x, oa, ob, **kw))
            if r['err'] == '':
                r['v'] = U.project(r['v'], ctx)
            r['calls'] = [list(c) for c in calls]
            case['tbm'] = r
            pcalls, acalls = [], []
            rp = g(lambda: optree.tree_broadcast_map_with_path(lambda p, x, y: pcalls.append([proj_path(p), ctx.id_of(x), ctx.id_of(y)]) or x, oa, ob, **kw))
            case['tbm_path'] = {'err': rp['err'], 'calls': pcalls}
            ra = g(lambda: optree.tree_broadcast_map_with_accessor(lambda a_, x, y: acalls.append([proj_acc(a_), ctx.id_of(x), ctx.id_of(y)]) or x, oa, ob, **kw))
            case['tbm_acc'] = {'err': ra['err'], 'calls': acalls}
        if 'compose' in fams:
            r = g(lambda: sa.compose(sb))
            if r['err'] == '':
                r['v'] = U.project_spec(r['v'])
            case['compose'] = r
            r = g(lambda: sa.transform(None, lambda leafspec: sb))
            if r['err'] == '':
                r['v'] = U.project_spec(r['v'])
            case['transform_leaf'] = r
            r = g(lambda: optree.treespec_transform(sa, lambda s: s, lambda s: s))
            if r['err'] == '':
                r['v'] = U.project_spec(r['v'])
            case['transform_id'] = r
    return case


def run_xspec(a, b, cfg1, cfg2):
    """treespec-level operations on two treespecs made under DIFFERENT option sets (none_is_leaf / namespace / mode mismatch rules)"""
    ctx = U.Ctx()
    oa, ob = U.realise(a, ctx), U.realise(b, ctx)
    with U.modes(cfg1['modes']):
        sa = optree.tree_structure(oa, none_is_leaf=cfg1['nil'], namespace=cfg1['ns'])
    with U.modes(cfg2['modes']):
        sb = optree.tree_structure(ob, none_is_leaf=cfg2['nil'], namespace=cfg2['ns'])
    case = {'op': 'xspec', 'a': a, 'b': b, 'cfg1': cfg1, 'cfg2': cfg2, 'sa': U.project_spec(sa), 'sb': U.project_spec(sb)}

    def spec_or_err(fn):
        r = g(fn)
        if r['err'] == '':
            r['v'] = U.project_spec(r['v'])
        return r
    case['eq'] = g(lambda: [sa == sb, sb == sa, sa != sb, hash(sa) == hash(sb)])
    case['is_prefix'] = g(lambda: [sa.is_prefix(sb), sa.is_prefix(sb, strict=True), sb.is_suffix(sa), sa <= sb, sa < sb])
    case['compose'] = spec_or_err(lambda: sa.compose(sb))
    case['bcs'] = spec_or_err(lambda: sa.broadcast_to_common_suffix(sb))
    case['transform_leaf'] = spec_or_err(lambda: sa.transform(None, lambda leaf: sb))
    m, n = sa.num_leaves, sb.num_leaves
    case['transpose'] = g(lambda: optree.tree_leaves(optree.tree_transpose(sa, sb, sa.unflatten([sb.unflatten(list(range(n)))] * m)),
                                                     none_is_leaf=cfg1['nil'], namespace=cfg1['ns'] or cfg2['ns']) and 0)
    return case


def work(line):
    item = json.loads(line)
    out = []
    if 'cfg2s' in item:
        for cfg1, cfg2 in zip(item['cfgs'], item['cfg2s']):
            out.append(json.dumps(run_xspec(item['a'], item['b'], cfg1, cfg2), separators=(',', ':')))
        return out
    for cfg in item['cfgs']:
        out.append(json.dumps(run_pair(item['a'], item['b'], cfg, item['fams']), separators=(',', ':')))
    return out


def init():
    U.setup_world()


def main():
    inp, outp, fams = sys.argv[1], sys.argv[2], sys.argv[3].split(',')
    lines = []
    for l in open(inp):
        d = json.loads(l)
        d['fams'] = fams
        lines.append(json.dumps(d))
    with open(outp, 'w') as fh:
        for res in pmap(work, lines, init=init, chunksize=16):
            for c in res:
                fh.write(c + '\n')


if __name__ == '__main__':
    main()
