"""Driver for C19: optree dataclasses over every field layout (LayoutGen) and optree.functools.partial.
usage: python -m harness.drivers.d_dc IN.ndjson OUT.ndjson       IN: {"layout": [desc...]}   (one per line)
"""
import dataclasses, functools, itertools, json, operator, sys

import optree
from harness import vuniv as U

L = U.Leaf
FLAGSETS = [{}, {'frozen': True}, {'order': True}, {'unsafe_hash': True}, {'slots': True}, {'kw_only': True}, {'eq': False}, {'frozen': True, 'slots': True}]
counter = [0]


def field_value(i, node):
    if not node:
        return 100 + i
    return [L(10 * i + 1), (L(10 * i + 2), {'k': L(10 * i + 3)}), L(10 * i + 4)][i % 3]


def build(layout, flags, route, ns, inherit=False):
    """returns (cls or exception, stdlib twin or exception)"""
    counter[0] += 1
    name = f'DC{counter[0]}'
    post = {'n': 0}

    def specs(fieldfn):
        out = []
        for i, d in enumerate(layout):
            kw = {}
            if d['dflt']:
                kw['default'] = None if d['node'] else 100 + i if d['init'] else -1
            if not d['init']:
                kw['init'] = False
            if d['kwonly']:
                kw['kw_only'] = True
            f = fieldfn(d, kw)
            out.append((f'f{i}', object, f))
        return out

    shared_meta = {'unit': 'm'}      # user metadata: ONE dict object handed to every field() call of the class

    def opt_field(d, kw):
        if route == 'make_dataclass':
            return optree.dataclasses.field(pytree_node=d['node'], metadata=shared_meta, **kw)
        return optree.dataclasses.field(pytree_node=d['node'], **kw)

    def std_field(d, kw):
        return dataclasses.field(**kw)

    def post_init(self):
        post['n'] += 1
        for i, d in enumerate(layout):
            if not d['init']:
                object.__setattr__(self, f'f{i}', ('derived', post['n'] * 0 + i))
    body = {'__post_init__': post_init}
    try:
        std = dataclasses.make_dataclass(name, specs(std_field), namespace=dict(body), **flags)
    except Exception as ex:   # noqa: BLE001
        std = ex
    try:
        if route == 'make_dataclass':
            cls = optree.dataclasses.make_dataclass(name, specs(opt_field), ns=dict(body), namespace=ns, **flags)
        else:
            annotations = {f'f{i}': object for i in range(len(layout))}
            d = dict(body)
            d['__annotations__'] = annotations
            for fname, _, f in specs(opt_field):
                d[fname] = f
            if inherit and layout:
                # the first field comes from a (plain dataclass) base class
                base_ann = {'f0': object}
                base = dataclasses.dataclass(type(name + 'Base', (), {'__annotations__': base_ann, 'f0': specs(opt_field)[0][2]}))
                d['__annotations__'] = {k: v for k, v in annotations.items() if k != 'f0'}
                d.pop('f0')
                raw = type(name, (base,), d)
            else:
                raw = type(name, (), d)
            cls = optree.dataclasses.dataclass(raw, namespace=ns, **flags)
    except Exception as ex:   # noqa: BLE001
        cls = ex
    return cls, std, post


def run_layout(layout):
    out = []
    for fi, flags in enumerate(FLAGSETS):
        for route in ('decorator', 'make_dataclass', 'decorator-inherited'):
            if route == 'decorator-inherited' and (fi != 0 or not layout):
                continue
            ns = 'dc'
            cls, std, post = build(layout, flags, 'decorator' if route != 'make_dataclass' else route, ns, inherit=route == 'decorator-inherited')
            case = {'op': 'dataclass', 'layout': layout, 'flags': sorted(flags), 'route': route,
                    'std_err': U.exc_class(std) if isinstance(std, Exception) else '',
                    'err': U.exc_class(cls) if isinstance(cls, Exception) else ''}
            if not isinstance(cls, Exception):
                try:
                    ctx = U.Ctx()
                    kwargs = {f'f{i}': field_value(i, d['node']) for i, d in enumerate(layout) if d['init']}
                    obj = cls(**kwargs)
                    n0 = post['n']
                    leaves, spec = optree.tree_flatten(obj, namespace=ns)
                    accs = optree.tree_accessors(obj, namespace=ns)
                    one = optree.tree_flatten_one_level(obj, namespace=ns)
                    exp_children = [kwargs[f'f{i}'] for i, d in enumerate(layout) if d['node'] and d['init']]
                    exp_leaves = [x for c in exp_children for x in optree.tree_leaves(c)]
                    rebuilt = optree.tree_unflatten(spec, leaves)
                    case.update({
                        'children': [int(e[1:]) + 1 for e in spec.entries()],
                        'metadata': [int(k[1:]) + 1 for k, _ in spec.__getstate__()[0][-1][2]],
                        'meta_values_ok': all(v == kwargs[k] for k, v in spec.__getstate__()[0][-1][2]),
                        'leaves_ok': [id(x) for x in leaves] == [id(x) for x in exp_leaves],
                        'one_level_children_ok': len(one.children) == len(exp_children) and all(a is b for a, b in zip(one.children, exp_children)),
                        'entry_class': accs[0][0].__class__.__name__ if accs else 'DataclassEntry',
                        'accessors_ok': all(a(obj) is l for a, l in zip(accs, leaves)),
                        'rebuilt_type_ok': type(rebuilt) is cls,
                        'rebuilt_equal': all(_same(getattr(rebuilt, f'f{i}'), getattr(obj, f'f{i}')) for i in range(len(layout))),
                        'post_init_rerun': post['n'] == n0 + 1,
                        'leaf_in_other_namespace': optree.tree_leaves(obj, namespace='other-ns') == [obj] and optree.tree_leaves(obj) == [obj],
                        'twice_rejected': _twice(cls, ns),
                    })
                    if not isinstance(std, Exception):
                        case['same_as_stdlib'] = _compare_classes(cls, std, flags)
                    map_res = optree.tree_map(lambda x: x, obj, namespace=ns)
                    case['map_type_ok'] = type(map_res) is cls
                except Exception as ex:   # noqa: BLE001
                    case['use_err'] = U.exc_class(ex) + ':' + str(ex)[:120]
                finally:
                    try:
                        optree.unregister_pytree_node(cls, namespace=ns)
                    except Exception:   # noqa: BLE001
                        pass
            out.append(case)
    return out


def hand_registered(layout):
    """a plain dataclasses.dataclass registered by hand with the default AutoEntry and NO explicit entries: its flatten returns all
    __init__ fields in order, so integer entry i must address the i-th __init__ field (DataclassEntry with an int entry)"""
    if not layout or not any(d['init'] for d in layout):
        return []
    counter[0] += 1
    name = f'HR{counter[0]}'
    specs = []
    for i, d in enumerate(layout):
        kw = {}
        if d['dflt']:
            kw['default'] = None
        if not d['init']:
            kw['init'] = False
        if d['kwonly']:
            kw['kw_only'] = True
        specs.append((f'f{i}', object, dataclasses.field(**kw)))
    try:
        cls = dataclasses.make_dataclass(name, specs)
    except Exception:   # noqa: BLE001
        return []
    init_names = [f.name for f in dataclasses.fields(cls) if f.init]

    def fl(o):
        return tuple(getattr(o, n) for n in init_names), None

    def un(_, children):
        return cls(**dict(zip(init_names, children)))
    ns = 'dc-hand'
    optree.register_pytree_node(cls, fl, un, namespace=ns)
    try:
        kwargs = {n: L(int(n[1:]) * 10 + 1) for n in init_names}
        obj = cls(**kwargs)
        accs, leaves, spec = optree.tree_flatten_with_accessor(obj, namespace=ns)
        hits = []
        for a in accs:
            try:
                hits.append(a(obj) is leaves[len(hits)])
            except Exception:   # noqa: BLE001
                hits.append(False)
        codes = []
        for a, l in zip(accs, leaves):
            try:
                codes.append(eval(a.codify('t'), {'t': obj}) is l)   # noqa: S307
            except Exception:   # noqa: BLE001
                codes.append(False)
        return [{'op': 'dataclass-hand', 'layout': layout, 'entry_class': accs[0][0].__class__.__name__ if accs else 'DataclassEntry',
                 'entries_are_ints': all(isinstance(e, int) for e in spec.entries()), 'accessor_hits': hits, 'codify_hits': codes,
                 'fields': [a[0].field if hasattr(a[0], 'field') else None for a in accs], 'init_names': init_names}]
    finally:
        optree.unregister_pytree_node(cls, namespace=ns)


def _same(a, b):
    if a is b:
        return True
    la, sa = optree.tree_flatten(a)
    lb, sb = optree.tree_flatten(b)
    return sa == sb and all(x is y or x == y for x, y in zip(la, lb)) and type(a) is type(b)


def _twice(cls, ns):
    try:
        optree.dataclasses.dataclass(cls, namespace=ns)
        return False
    except TypeError:
        return True
    except Exception:   # noqa: BLE001
        return False


def _compare_classes(cls, std, flags):
    """the class is otherwise the one dataclasses.dataclass would produce"""
    fa, fb = dataclasses.fields(cls), dataclasses.fields(std)
    ok = [f.name for f in fa] == [f.name for f in fb]
    ok &= [(f.init, f.kw_only, f.default is dataclasses.MISSING, f.repr, f.compare) for f in fa] == \
          [(f.init, f.kw_only, f.default is dataclasses.MISSING, f.repr, f.compare) for f in fb]
    pa, pb = cls.__dataclass_params__, std.__dataclass_params__
    ok &= all(getattr(pa, k) == getattr(pb, k) for k in ('init', 'repr', 'eq', 'order', 'unsafe_hash', 'frozen'))
    ok &= ('__slots__' in cls.__dict__) == ('__slots__' in std.__dict__)
    import inspect
    ok &= str(inspect.signature(cls)) == str(inspect.signature(std))
    ok &= (cls.__hash__ is None) == (std.__hash__ is None) and hasattr(cls, '__lt__') == hasattr(std, '__lt__')
    return bool(ok)


def partial_cases():
    out = []
    P = optree.functools.partial

    def f(*a, **k):
        return ('f', a, tuple(sorted(k.items())))

    def g(*a, **k):
        return ('g', a, tuple(sorted(k.items())))
    trees = [(), (L(1),), (L(1), (L(2), [L(3)])), ({'x': L(4)}, None, L(5))]
    kws = [{}, {'b': L(6)}, {'z': (L(7), L(8)), 'a': L(9)}]
    for args, kw in itertools.product(trees, kws):
        for inner_kind in ('none', 'functools', 'optree'):
            inner = f if inner_kind == 'none' else functools.partial(g, L(90), q=L(91)) if inner_kind == 'functools' else P(g, L(90), q=L(91))
            p = P(inner, *args, **kw)
            case = {'op': 'partial', 'inner': inner_kind, 'nargs': len(args), 'kws': sorted(kw)}
            for ns in ('', 'a', 'never-used-namespace'):
                leaves, spec = optree.tree_flatten(p, namespace=ns)
                exp = optree.tree_leaves((tuple(args), dict(kw)))
                case[f'leaves_ok[{ns}]'] = [id(x) for x in leaves] == [id(x) for x in exp]
                case[f'entries[{ns}]'] = list(spec.entries())
                case[f'children_ok[{ns}]'] = spec.num_children == 2 and spec.child(0) == optree.tree_structure(tuple(args)) and spec.child(1) == optree.tree_structure(dict(kw))
            md = optree.tree_flatten_one_level(p).metadata
            case['metadata_is_func'] = md is p.func
            case['not_merged'] = p.args == tuple(args) and p.keywords == dict(kw) and (inner_kind == 'none' or not (p.func is g))
            mapped = optree.tree_map(lambda x: L(x.n + 1000), p)
            case['mapped_type'] = type(mapped) is P
            r1 = mapped()
            margs = optree.tree_map(lambda x: L(x.n + 1000), tuple(args))
            mkw = optree.tree_map(lambda x: L(x.n + 1000), dict(kw))
            r2 = inner(*margs, **mkw)      # the wrapped callable (even another partial) is metadata: only the outer arguments are mapped
            case['call_after_map'] = _deep_n(r1) == _deep_n(r2)
            rt = optree.tree_unflatten(*optree.tree_flatten(p)[::-1])
            case['roundtrip'] = type(rt) is P and rt.args == p.args and rt.keywords == p.keywords and _deep_n(rt()) == _deep_n(p())
            out.append(case)
    return out


def _deep_n(x):
    if isinstance(x, L):
        return ('L', x.n)
    if isinstance(x, (tuple, list)):
        return tuple(_deep_n(y) for y in x)
    if isinstance(x, dict):
        return tuple(sorted((k, _deep_n(v)) for k, v in x.items()))
    return x


def main():
    inp, outp = sys.argv[1], sys.argv[2]
    with open(outp, 'w') as fh:
        for line in open(inp):
            lay = json.loads(line)['layout']
            for c in run_layout(lay) + hand_registered(lay):
                fh.write(json.dumps(c) + '\n')
        for c in partial_cases():
            fh.write(json.dumps(c) + '\n')
        # argument validation of the decorator itself
        res = {}
        for name, kw, exp in (('empty-namespace', {'namespace': ''}, 'Value'), ('non-string-namespace', {'namespace': 3}, 'Type')):
            try:
                optree.dataclasses.dataclass(type('X', (), {'__annotations__': {'a': int}}), **kw)
                res[name] = ''
            except Exception as ex:   # noqa: BLE001
                res[name] = U.exc_class(ex)
        try:
            optree.dataclasses.dataclass(3, namespace='dc')
            res['non-class'] = ''
        except Exception as ex:   # noqa: BLE001
            res['non-class'] = U.exc_class(ex)
        fh.write(json.dumps({'op': 'dataclass-args', 'res': res}) + '\n')


if __name__ == '__main__':
    main()
