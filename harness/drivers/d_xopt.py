"""Driver: the same tree flattened under two option sets; equality/hash of the two treespecs (C06)."""
import json, os, sys, multiprocessing as mp
import optree
from harness import vuniv as U


def work(line):
    item = json.loads(line)
    t = item['t']
    c1, c2 = item['cfgs']
    ctx = U.Ctx()
    obj = U.realise(t, ctx)
    specs = []
    for c in (c1, c2):
        with U.modes(c['modes']):
            specs.append(optree.tree_structure(obj, none_is_leaf=c['nil'], namespace=c['ns']))
    a, b = specs
    case = {'op': 'xopt', 't': t, 'cfg1': c1, 'cfg2': c2, 'sa': U.project_spec(a), 'sb': U.project_spec(b),
            'ab': a == b, 'ba': b == a, 'ne': a != b, 'hash_eq': hash(a) == hash(b), 'set_size': len({a, b})}
    return [json.dumps(case, separators=(',', ':'))]


def main():
    inp, outp = sys.argv[1], sys.argv[2]
    lines = list(open(inp))
    with mp.Pool(16, initializer=U.setup_world) as pool, open(outp, 'w') as fh:
        for res in pool.imap(work, lines, chunksize=16):
            for c in res:
                fh.write(c + '\n')


if __name__ == '__main__':
    main()
