"""Driver: the same tree flattened under two option sets; equality/hash of the two treespecs (C06)."""
import json, os, sys, multiprocessing as mp
from harness.drivers import pmap
import optree
from harness import vuniv as U


def work(line):
    item = json.loads(line)
    t = item['t']
    c1, c2 = item['cfgs']
    ctx = U.Ctx()
    obj = U.realise(t, ctx)
    specs = []
    for c in (c1, c2):
        with U.modes(c['modes']):
            specs.append(optree.tree_structure(obj, none_is_leaf=c['nil'], namespace=c['ns']))
    a, b = specs
    case = {'op': 'xopt', 't': t, 'cfg1': c1, 'cfg2': c2, 'sa': U.project_spec(a), 'sb': U.project_spec(b),
            'ab': a == b, 'ba': b == a, 'ne': a != b, 'hash_eq': hash(a) == hash(b), 'set_size': len({a, b})}
    return [json.dumps(case, separators=(',', ':'))]


def hash_after_failure():
    """the hash contract along a history: hash(a) raises once (a key's __hash__ fails transiently), later a == b must still imply
    hash(a) == hash(b), and a must still work as a set member / dict key"""
    out = []
    for kind in ('dict', 'defaultdict', 'OrderedDict'):     # (custom metadata is not hashed: only the node type is)
        if kind == 'custom-meta':
            mk = lambda: [U.CM([U.Leaf(1)], 3)]     # noqa: E731
            ns = 'm'
        else:
            cls = {'dict': dict, 'defaultdict': lambda d: U.defaultdict(int, d), 'OrderedDict': U.OrderedDict}[kind]
            mk = lambda cls=cls: cls({U.KHook(1): U.Leaf(1), U.KHook(2): (U.Leaf(2),)})     # noqa: E731
            ns = ''
        a = optree.tree_structure(mk(), namespace=ns)
        b = optree.tree_structure(mk(), namespace=ns)
        h_before = hash(a)
        fired = []

        def hook(k, arg):
            if k in ('key_hash', 'meta_hash') and not fired:
                fired.append(1)
                raise RuntimeError('transient')
        U.HOOK = hook
        try:
            hash(a)
            raised = False
        except RuntimeError:
            raised = True
        finally:
            U.HOOK = None
        out.append({'op': 'hash-history', 'kind': kind, 'raised': raised, 'eq': a == b, 'hash_eq': hash(a) == hash(b), 'stable': hash(a) == h_before,
                    'in_set': b in {a}, 'repr_ok': repr(a) == repr(b)})
    return out


def main():
    inp, outp = sys.argv[1], sys.argv[2]
    lines = list(open(inp))
    with open(outp, 'w') as fh:
        for res in pmap(work, lines, init=U.setup_world, chunksize=16):
            for c in res:
                fh.write(c + '\n')
        U.setup_world()
        for c in hash_after_failure():
            fh.write(json.dumps(c) + '\n')


if __name__ == '__main__':
    main()
