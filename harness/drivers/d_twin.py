"""Driver for C18 (Python twins vs engine): class classification over trait vectors and cache histories, total-order sort,
one-level flattening.

usage: python -m harness.drivers.d_twin classes OUT.ndjson HIST.ndjson
       python -m harness.drivers.d_twin trees IN.ndjson OUT.ndjson
"""
import gc, itertools, json, os, sys, collections

from harness.drivers import pmap
import optree
from harness import vuniv as U
from harness.drivers.d_tree import type_tag

FIELDS = ['absent', 'tuple_of_str', 'tuple_with_nonstr', 'list_of_str', 'tuplesubclass_of_str', 'empty_tuple']
ATTR = ['callable', 'noncallable', 'absent']


class TupSub(tuple):
    pass


def make_class(tr, name='K', base=None):
    """base: a real namedtuple class to derive from (traits marked 'absent' are then inherited from it)"""
    ns = {}
    f = tr['fields']
    if f == 'tuple_of_str':
        ns['_fields'] = ('a', 'b')
    elif f == 'tuple_with_nonstr':
        ns['_fields'] = ('a', 1)
    elif f == 'list_of_str':
        ns['_fields'] = ['a', 'b']
    elif f == 'tuplesubclass_of_str':
        ns['_fields'] = TupSub(('a', 'b'))
    elif f == 'empty_tuple':
        ns['_fields'] = ()
    for attr, key in (('_make', 'make'), ('_asdict', 'asdict')):
        if tr[key] == 'callable':
            ns[attr] = classmethod(lambda cls, *a: None) if attr == '_make' else (lambda self: {})
        elif tr[key] == 'noncallable':
            ns[attr] = 42
    return type(name, (base,) if base is not None else (tuple,) if tr['tuplesub'] else (), ns)


def answers(cls):
    """engine, python twin for the class-level and instance-level predicates"""
    out = {}
    for nm in ('is_namedtuple_class', 'is_structseq_class', 'is_namedtuple', 'is_structseq'):
        fn = getattr(optree, nm)
        try:
            e = bool(fn(cls))
        except Exception as ex:   # noqa: BLE001
            e = 'exc:' + type(ex).__name__
        try:
            p = bool(fn.__python_implementation__(cls))
        except Exception as ex:   # noqa: BLE001
            p = 'exc:' + type(ex).__name__
        out[nm] = [e, p]
    for nm in ('namedtuple_fields', 'structseq_fields'):
        fn = getattr(optree, nm)
        try:
            e = list(fn(cls))
        except Exception as ex:   # noqa: BLE001
            e = 'exc:' + type(ex).__name__
        try:
            p = list(fn.__python_implementation__(cls))
        except Exception as ex:   # noqa: BLE001
            p = 'exc:' + type(ex).__name__
        out[nm] = [e, p]
    return out


def classes_main(outp, histp):
    cases = []
    # (1) the whole trait space, fresh class each
    for ts, f, m, a in itertools.product([True, False], FIELDS, ATTR, ATTR):
        tr = {'tuplesub': ts, 'fields': f, 'make': m, 'asdict': a}
        cls = make_class(tr)
        ans = answers(cls)
        inst = None
        if ts:
            try:
                inst = cls((1, 2))
                ans['instance'] = [bool(optree.is_namedtuple_instance(inst)), bool(optree.is_namedtuple_instance.__python_implementation__(inst)),
                                   int(optree.tree_structure(inst).kind) == 6]
            except Exception:   # noqa: BLE001
                pass
        cases.append({'op': 'classify', 'traits': tr, 'ans': ans})
    # (1b) look-alikes deriving from a REAL namedtuple class and overriding some traits; the verdict is a function of the class's
    # own (effective) traits, whether or not its parent has been classified before
    import collections
    for parent_first, f, m, a in itertools.product([False, True], FIELDS, ATTR, ATTR):
        P = collections.namedtuple('P', 'a b')
        if parent_first:
            optree.is_namedtuple_class(P), optree.tree_structure(P(1, 2))
        tr = {'tuplesub': True, 'fields': f, 'make': m, 'asdict': a}
        cls = make_class(tr, 'L', base=P)
        eff = {'tuplesub': True, 'fields': 'tuple_of_str' if f == 'absent' else f, 'make': 'callable' if m == 'absent' else m,
               'asdict': 'callable' if a == 'absent' else a}
        ans = answers(cls)
        try:
            inst = cls(1, 2)
            ans['instance'] = [bool(optree.is_namedtuple_instance(inst)), bool(optree.is_namedtuple_instance.__python_implementation__(inst)),
                               int(optree.tree_structure(inst).kind) == 6]
        except Exception:   # noqa: BLE001
            pass
        cases.append({'op': 'classify', 'traits': eff, 'ans': ans, 'derived_from_namedtuple': True, 'parent_classified_first': parent_first})
    # real classes
    real = {'namedtuple': U.NT2, 'namedtuple-subclass': type('Sub', (U.NT2,), {}), 'typing.NamedTuple': __import__('typing').NamedTuple('TN', [('a', int)]),
            'structseq': os.terminal_size, 'structseq2': type(sys.flags), 'structseq3': __import__('time').struct_time, 'stat_result': os.stat_result,
            'plain-tuple': tuple, 'list': list, 'int-value': 3, 'str-value': 'x', 'none': None}
    for name, c in real.items():
        cases.append({'op': 'classify-real', 'name': name, 'ans': answers(c),
                      'truth_nt': name in ('namedtuple', 'namedtuple-subclass', 'typing.NamedTuple'),
                      'truth_ss': name.startswith('structseq') or name == 'stat_result'})
    # (2) cache histories from the model (create / query / destroy over address slots) + thousands of transient classes
    hists = [json.loads(l) for l in open(histp)] if os.path.exists(histp) else []
    reuse = 0
    seen_addr = set()
    for h in hists:
        slots, log = {}, []
        for op, s, tr in h['ops']:
            if op == 'create':
                slots[s] = make_class(tr, f'H{s}')
                if id(slots[s]) in seen_addr:
                    reuse += 1
                seen_addr.add(id(slots[s]))
            elif op == 'query':
                cls = slots[s]
                log.append({'slot': s, 'traits': tr, 'engine': bool(optree.is_namedtuple_class(cls)),
                            'twin': bool(optree.is_namedtuple_class.__python_implementation__(cls))})
            elif op == 'destroy':
                del slots[s]
                gc.collect()
        cases.append({'op': 'cache-history', 'tid': h['tid'], 'log': log})
    # exceed the capacity of 4096 and provoke address reuse: first 4300 long-lived classified classes fill the memo to its cap,
    # then transient classes with alternating verdicts are created, classified and freed (their addresses get reused)
    stale = 0
    pad_reuse = 0
    addrs = set()
    trs = [{'tuplesub': True, 'fields': 'tuple_of_str', 'make': 'callable', 'asdict': 'callable'},
           {'tuplesub': True, 'fields': 'absent', 'make': 'callable', 'asdict': 'callable'},
           {'tuplesub': True, 'fields': 'tuple_of_str', 'make': 'absent', 'asdict': 'callable'}]
    keep = []
    for i in range(4300):
        cls = make_class(trs[i % 3], f'K{i}')
        truth = i % 3 == 0
        if bool(optree.is_namedtuple_class(cls)) != truth:
            stale += 1
        keep.append(cls)
    n_transient = int(os.environ.get('VERIF_TRANSIENT', '6000'))
    for i in range(n_transient):
        tr = trs[(i * 7 + i // 3) % 3]
        cls = make_class(tr, f'T{i}')
        if id(cls) in addrs:
            pad_reuse += 1
        addrs.add(id(cls))
        truth = tr['fields'] == 'tuple_of_str' and tr['make'] == 'callable'
        inst_kind = int(optree.tree_structure(cls((1, 2))).kind)
        if bool(optree.is_namedtuple_class(cls)) != truth or bool(optree.is_namedtuple_class.__python_implementation__(cls)) != truth \
                or (inst_kind == 6) != truth:
            stale += 1
        del cls
        if i % 50 == 0:
            gc.collect()
    cases.append({'op': 'transient', 'n': n_transient, 'stale': stale, 'address_reuses': pad_reuse + reuse, 'kept': len(keep)})
    with open(outp, 'w') as fh:
        for c in cases:
            fh.write(json.dumps(c) + '\n')


def one_level(t, cfg, ctx, obj):
    kw = dict(none_is_leaf=cfg['nil'], namespace=cfg['ns'])
    pred = U.make_pred(cfg, ctx)
    case = {'op': 'onelevel', 't': t, 'cfg': cfg}
    with U.modes(cfg['modes']):
        try:
            r = optree.tree_flatten_one_level(obj, pred, **kw)
            case['py'] = {'err': '', 'children': [U.project(c, ctx) for c in r.children], 'entries': [U.proj_key(e) for e in r.entries],
                          'kind': int(r.kind), 'type': 100 if r.type is type(None) else type_tag(r.type), 'pet': r.path_entry_type.__name__,
                          'rebuilt': U.project(r.unflatten_func(r.metadata, r.children), ctx)}
            md = r.metadata
            case['py']['meta'] = ([U.proj_key(k) for k in md] if isinstance(md, list) else
                                  [U.FACTORY_ID[md[0]]] + [U.proj_key(k) for k in md[1]] if int(r.kind) == 8 else
                                  (0 if md is None else md + 1) if int(r.kind) == 9 else U.proj_meta(md) if int(r.kind) == 0 else -1)
        except ValueError:
            case['py'] = {'err': 'Value'}
        except Exception as ex:   # noqa: BLE001
            case['py'] = {'err': U.exc_class(ex)}
        try:
            s = optree.tree_structure(obj, pred, **kw)
            case['eng'] = {'leaf': s.is_leaf(strict=True), 'entries': [U.proj_key(e) for e in s.entries()], 'kind': int(s.kind),
                           'children': [U.project_spec(c) for c in s.children()], 'type': 0 if s.type is None else 100 if s.type is type(None) else type_tag(s.type)}
            if case['py']['err'] == '':
                case['py']['child_specs'] = [U.project_spec(optree.tree_structure(c, pred, **kw)) for c in r.children]
        except Exception as ex:   # noqa: BLE001
            case['eng'] = {'err': U.exc_class(ex)}
    return case


def sort_case(keys):
    objs = [U.mk_key(k) for k in keys]
    d = {o: i for i, o in enumerate(objs)}
    eng = [U.proj_key(k) for k in optree.tree_structure(d).entries()]
    twin = [U.proj_key(k) for k in optree.utils.total_order_sorted(list(objs))]
    return {'op': 'sortkeys', 'keys': keys, 'engine': eng, 'twin': twin}


def _tree_work(line):
    item = json.loads(line)
    if 'keys' in item:
        return [json.dumps(sort_case(item['keys']))]
    out = []
    for cfg in item['cfgs']:
        ctx = U.Ctx()
        obj = U.realise(item['t'], ctx)
        out.append(json.dumps(one_level(item['t'], cfg, ctx, obj)))
    return out


def trees_main(inp, outp):
    import multiprocessing as mp
    U.setup_world()
    lines = list(open(inp))
    with open(outp, 'w') as fh:
        for res in pmap(_tree_work, lines, init=U.setup_world, chunksize=32):
            for c in res:
                fh.write(c + '\n')
    # partially ordered keys (frozensets): the two real implementations are only compared with each other
    import random
    rng = random.Random(0)
    bad = 0
    pool = [frozenset(s) for s in ([], [1], [2], [1, 2], [1, 3], [2, 3], [1, 2, 3])] + [1, 'a', (1, 2), (1, 'a'), None, 2.5, U.KUnord(1), U.KOrd(2)]
    for _ in range(3000):
        ks = rng.sample(pool, rng.randint(2, 5))
        try:
            e = optree.tree_structure({k: 0 for k in ks}).entries()
            t = optree.utils.total_order_sorted(ks)
            if [id(x) for x in e] != [id(x) for x in t] and e != t:
                bad += 1
        except Exception:   # noqa: BLE001
            bad += 1
    with open(outp, 'a') as fh:
        fh.write(json.dumps({'op': 'partial-order-twins', 'n': 3000, 'disagreements': bad}) + '\n')


if __name__ == '__main__':
    if sys.argv[1] == 'classes':
        classes_main(sys.argv[2], sys.argv[3])
    else:
        trees_main(sys.argv[2], sys.argv[3])
