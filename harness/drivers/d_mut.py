"""Memory-safety driver (C16): mutation under traversal, argument confusion, operations at the depth limit.
Every case is announced in a progress file before it runs, so that the parent can attribute a crash (or a sanitizer abort).

usage: python -m harness.drivers.d_mut mut IN.ndjson OUT.ndjson PROGRESS START
       python -m harness.drivers.d_mut args OUT.ndjson PROGRESS START
       python -m harness.drivers.d_mut deep OUT.ndjson PROGRESS START
"""
import json, os, sys, collections

import optree
from harness import vuniv as U

L = U.Leaf


def build(kind, n):
    leaves = [L(i) for i in range(1, n + 1)]
    if kind == 'list':
        return list(leaves), leaves
    if kind == 'deque':
        return collections.deque(leaves), leaves
    c = {'dict': dict, 'odict': collections.OrderedDict}[kind]() if kind != 'ddict' else collections.defaultdict(list)
    for i, x in enumerate(leaves):
        c[i + 1] = x
    return c, leaves


def mutate(c, kind, mut, cur):
    """cur: 1-based number of the child whose callback is running"""
    is_map = kind in ('dict', 'odict', 'ddict')
    keys = list(c) if is_map else None
    if mut == 'del_first':
        if len(c):
            if is_map:
                del c[keys[0]]
            elif kind == 'deque':
                c.popleft()
            else:
                del c[0]
    elif mut == 'del_last':
        if len(c):
            if is_map:
                del c[keys[-1]]
            else:
                c.pop()
    elif mut == 'clear':
        c.clear()
    elif mut == 'append':
        if is_map:
            c[100] = L(100)
        else:
            c.append(L(100))
    elif mut == 'replace_next':
        if cur + 1 <= len(c):
            if is_map:
                c[keys[cur]] = L(200)
            else:
                c[cur] = L(200)
    elif mut == 'pop_current':
        if cur <= len(c):
            if is_map:
                del c[keys[cur - 1]]
            else:
                del c[cur - 1]


ENTRIES = {
    'recursive': [('tree_flatten', lambda o, p: optree.tree_flatten(o, p)[0]),
                  ('tree_flatten_with_path', lambda o, p: optree.tree_flatten_with_path(o, p)[1]),
                  ('tree_flatten_with_accessor', lambda o, p: optree.tree_flatten_with_accessor(o, p)[1]),
                  ('tree_leaves', lambda o, p: optree.tree_leaves(o, p)),
                  ('tree_map', lambda o, p: optree.tree_leaves(optree.tree_map(lambda x: x, o, is_leaf=p))),
                  ('nested', lambda o, p: optree.tree_flatten({'k': (o,)}, p)[0])],
    'agenda': [('tree_iter', lambda o, p: list(optree.tree_iter(o, p))),
               ('tree_all', lambda o, p: (optree.tree_all(o, is_leaf=p), list(optree.tree_iter(o)))[1])],
}


def run_mut(case):
    out = []
    for name, fn in ENTRIES[case['style']]:
        if name in ('tree_all',):
            continue
        c, leaves = build(case['kind'], case['n'])
        target = leaves[case['p'] - 1]
        fired = [False]

        def pred(x):
            if x is target and not fired[0]:
                fired[0] = True
                mutate(c, case['kind'], case['mut'], case['p'])
            return False
        try:
            res = fn(c, pred)
            got = {'status': 'done', 'out': [x.n if isinstance(x, L) else -7 for x in res]}
        except IndexError:
            got = {'status': 'IndexError'}
        except KeyError:
            got = {'status': 'KeyError'}
        except Exception as ex:   # noqa: BLE001
            got = {'status': type(ex).__name__, 'msg': str(ex)[:120]}
        got['entry'] = name
        out.append(got)
    return out


def confusion_cases():
    """API x argument-type confusions; the contract is only: a Python exception or a value"""
    spec = optree.tree_structure({'a': (1, 2), 'b': [3]})
    leaf = optree.treespec_leaf()
    weird = [None, 0, -1, 2 ** 70, 'x', b'y', 1.5, object(), [], {}, (), [1, [2]], {'a': 1}, spec, leaf, lambda *a: None, type, int, ..., float('nan'),
             range(3), iter([1, 2]), {1, 2}, collections.deque([1]), U.NT2(1, 2), U.SS2((1, 2)), U.CA([1], 1),
             U.NT2, U.SS2, U.CA, U.SubList, [U.NT2, (U.SS2,)], {'cls': U.NT2, 'args': (1, 2)}] + \
            [U.CA([L(1), (L(2), L(3))], 1, None, f) for f in ('tuplelen', 'childiter', 'entlen', 'entiter', 'entshort')] + \
            [[U.CA([L(1), L(2), L(3)], 1, None, 'entshort'), {'k': U.CA([L(4)], 2, None, 'entlen')}]]
    fns = {
        'tree_flatten(x, is_leaf=w)': lambda w: optree.tree_flatten([1, 2], w),
        'tree_flatten(w)': lambda w: optree.tree_flatten(w),
        'tree_paths(w)/accessors/structure/leaves': lambda w: [f(w) for f in (optree.tree_paths, optree.tree_accessors, optree.tree_structure, optree.tree_leaves, optree.tree_flatten_with_accessor)],
        'tree_map(id, w)/flatten_one_level': lambda w: (optree.tree_map(lambda x: x, w), optree.tree_flatten_one_level(w)),
        'tree_flatten_with_path(w)/iter/is_leaf': lambda w: (optree.tree_flatten_with_path(w), list(optree.tree_iter(w)), optree.tree_is_leaf(w), optree.all_leaves([w, 1])),
        'tree_flatten(x, namespace=w)': lambda w: optree.tree_flatten([1], namespace=w),
        'tree_flatten(x, none_is_leaf=w)': lambda w: optree.tree_flatten([1, None], none_is_leaf=w),
        'tree_unflatten(w, leaves)': lambda w: optree.tree_unflatten(w, [1, 2, 3]),
        'tree_unflatten(spec, w)': lambda w: optree.tree_unflatten(spec, w),
        'spec.unflatten(w)': lambda w: spec.unflatten(w),
        'spec.flatten_up_to(w)': lambda w: spec.flatten_up_to(w),
        'spec.child(w)': lambda w: spec.child(w),
        'spec.entry(w)': lambda w: spec.entry(w),
        'spec.compose(w)': lambda w: spec.compose(w),
        'spec.is_prefix(w)': lambda w: spec.is_prefix(w),
        'spec == w': lambda w: (spec == w, spec != w, hash(spec)),
        'spec < w': lambda w: spec < w,
        'spec.broadcast_to_common_suffix(w)': lambda w: spec.broadcast_to_common_suffix(w),
        'spec.transform(w, w)': lambda w: spec.transform(w, w),
        'spec.traverse(leaves, w, w)': lambda w: spec.traverse([1, 2, 3], w, w),
        'spec.walk(leaves, w, w)': lambda w: spec.walk([1, 2, 3], w, w),
        'spec.walk(w)': lambda w: spec.walk(w),
        'spec.__setstate__(w)': lambda w: optree.PyTreeSpec.__new__(optree.PyTreeSpec).__setstate__(w),
        'treespec_from_collection(w)': lambda w: optree.treespec_from_collection(w),
        'treespec_tuple(w)': lambda w: optree.treespec_tuple(w),
        'treespec_dict(w)': lambda w: optree.treespec_dict(w),
        'treespec_namedtuple(w)': lambda w: optree.treespec_namedtuple(w),
        'treespec_structseq(w)': lambda w: optree.treespec_structseq(w),
        'treespec_deque(w)': lambda w: optree.treespec_deque(w),
        'treespec_deque([], maxlen=w)': lambda w: optree.treespec_deque([leaf], maxlen=w),
        'treespec_defaultdict(w, {})': lambda w: optree.treespec_defaultdict(w, {'a': leaf}),
        'tree_map(w, x)': lambda w: optree.tree_map(w, [1, 2]),
        'tree_map(f, x, w)': lambda w: optree.tree_map(lambda *a: a, [1, (2,)], w),
        'tree_transpose(w, spec, x)': lambda w: optree.tree_transpose(w, spec, [1]),
        'tree_iter(w).__next__': lambda w: next(optree.tree_iter(w)),
        'tree_broadcast_prefix(w, x)': lambda w: optree.tree_broadcast_prefix(w, [1, 2]),
        'prefix_errors(w, x)': lambda w: optree.prefix_errors(w, [1, 2]),
        'tree_flatten_one_level(w)': lambda w: optree.tree_flatten_one_level(w),
        'register_pytree_node(w, ...)': lambda w: optree.register_pytree_node(w, lambda x: ((), None), lambda m, c: None, namespace='conf'),
        'unregister_pytree_node(w)': lambda w: optree.unregister_pytree_node(w, namespace='conf'),
        'is_namedtuple(w)/fields': lambda w: (optree.is_namedtuple(w), optree.is_structseq(w), optree.is_namedtuple_class(w), optree.is_structseq_class(w)),
        'namedtuple_fields(w)': lambda w: optree.namedtuple_fields(w),
        'structseq_fields(w)': lambda w: optree.structseq_fields(w),
        'PyTreeAccessor(w)': lambda w: optree.PyTreeAccessor(w),
        '_C.flatten(w,w,w,w)': lambda w: optree._C.flatten(w, w, w, w),
        '_C.make_from_collection(w, False, "")': lambda w: optree._C.make_from_collection(w, False, ''),
        '_C.is_dict_insertion_ordered(w)': lambda w: optree._C.is_dict_insertion_ordered(w),
    }
    for fname, fn in fns.items():
        for i, w in enumerate(weird):
            yield f'{fname} with w={type(w).__name__}#{i}', fn, w


def deep_cases():
    M = optree.MAX_RECURSION_DEPTH
    sys.setrecursionlimit(50000)

    def chain(kind, n):
        x = L(1)
        for _ in range(n):
            x = {'tuple': lambda y: (y,), 'list': lambda y: [y], 'dict': lambda y: {'a': y}, 'odict': lambda y: collections.OrderedDict(a=y),
                 'ddict': lambda y: collections.defaultdict(int, a=y), 'deque': lambda y: collections.deque([y]), 'nt': lambda y: U.NT1(y),
                 'custom': lambda y: U.CA([y], 1)}[kind](x)
        return x
    for kind in ('tuple', 'list', 'dict', 'odict', 'ddict', 'deque', 'nt', 'custom'):
        def at_limit(kind=kind):
            o = chain(kind, M)
            leaves, spec = optree.tree_flatten(o)
            r = optree.tree_unflatten(spec, leaves)
            optree.tree_map(lambda x: x, o)
            optree.tree_map_(lambda x, y: None, o, o)
            ps, ac = spec.paths(), spec.accessors()
            assert ac[0](o) is leaves[0] and len(ps[0]) == M
            repr(spec), hash(spec), spec == optree.tree_structure(r), spec.is_prefix(spec), spec.compose(spec), spec.children(), spec.one_level()
            spec.broadcast_to_common_suffix(spec), spec.flatten_up_to(o), optree.prefix_errors(o, o), optree.tree_broadcast_common(o, o)
            import pickle
            assert pickle.loads(pickle.dumps(spec)) == spec
            list(optree.tree_iter(o)), optree.tree_flatten_with_path(o), optree.tree_flatten_with_accessor(o)
            spec.traverse(leaves, lambda n: n, lambda x: x), spec.walk(leaves), spec.transform(lambda s: s, lambda s: s)
            return 'ok'
        yield f'every operation at depth MAX ({kind})', at_limit, None

        def beyond(kind=kind):
            o = chain(kind, M + 1)
            res = []
            for fn in (optree.tree_flatten, optree.tree_flatten_with_path, optree.tree_flatten_with_accessor, optree.tree_leaves,
                       lambda x: list(optree.tree_iter(x)), optree.tree_structure, lambda x: optree.tree_map(lambda y: y, x)):
                try:
                    fn(o)
                    res.append('no-error')
                except RecursionError:
                    res.append('RecursionError')
            assert res == ['RecursionError'] * 7, res
            # a treespec deeper than any tree can be (compose multiplies depths): every method returns or raises, none crashes
            s = optree.tree_structure(chain(kind, M))
            s2 = s.compose(s)
            r = s2.unflatten([1])
            repr(s2), hash(s2), s2 == s2, s2.children()
            for meth in (s2.paths, s2.accessors, lambda: s2.broadcast_to_common_suffix(s2)):
                try:
                    meth()
                except RecursionError:
                    pass
            return 'ok'
        yield f'depth MAX+1 raises RecursionError everywhere ({kind})', beyond, None


def very_deep_cases():
    """treespecs composed to tens of thousands of levels: each method in its own case so that a crash is attributed"""
    M = optree.MAX_RECURSION_DEPTH

    def big():
        x = L(1)
        for _ in range(M):
            x = [x]
        s = optree.tree_structure(x)
        b = s
        for _ in range(30):
            b = b.compose(s)
        return b, x
    import pickle
    ops = {
        'paths': lambda b, x: b.paths(), 'accessors': lambda b, x: b.accessors(), 'broadcast_to_common_suffix': lambda b, x: b.broadcast_to_common_suffix(b),
        'repr/hash/eq': lambda b, x: (repr(b), hash(b), b == b.compose(optree.treespec_leaf())), 'is_prefix': lambda b, x: (b.is_prefix(b), b <= b, b < b),
        'transform': lambda b, x: b.transform(lambda s: s, lambda s: s), 'unflatten': lambda b, x: b.unflatten([1]),
        'children/child/one_level/entries': lambda b, x: (b.children(), b.child(0), b.one_level(), b.entries()),
        'pickle/copy': lambda b, x: pickle.loads(pickle.dumps(b)), 'traverse/walk': lambda b, x: (b.traverse([1], lambda n: n, lambda y: y), b.walk([1])),
        'flatten_up_to': lambda b, x: b.flatten_up_to(x), 'compose': lambda b, x: b.compose(b).num_nodes,
        'treespec_list([b])': lambda b, x: optree.treespec_list([b, b]).num_nodes, 'gc': lambda b, x: None,
    }
    for name, fn in ops.items():
        def run(fn=fn):
            b, x = big()
            try:
                fn(b, x)
            except (RecursionError, ValueError):
                pass
            del b
            import gc
            gc.collect()
            return 'ok'
        yield f'31 000-level treespec: {name}', run, None


def main():
    mode = sys.argv[1]
    U.setup_world()
    if mode == 'mut':
        inp, outp, prog, start = sys.argv[2], sys.argv[3], sys.argv[4], int(sys.argv[5])
        cases = [json.loads(l) for l in open(inp)]
        with open(outp, 'a') as fo, open(prog, 'a') as fp:
            for i in range(start, len(cases)):
                fp.write(f'{i}\n'); fp.flush()
                fo.write(json.dumps({'i': i, 'case': cases[i], 'got': run_mut(cases[i])}) + '\n'); fo.flush()
        return
    import itertools
    gen = confusion_cases() if mode == 'args' else itertools.chain(deep_cases(), very_deep_cases())
    outp, prog, start = sys.argv[2], sys.argv[3], int(sys.argv[4])
    with open(outp, 'a') as fo, open(prog, 'a') as fp:
        for i, (name, fn, w) in enumerate(gen):
            if i < start:
                continue
            fp.write(f'{i}\t{name}\n'); fp.flush()
            try:
                r = fn(w) if mode == 'args' else fn()
                res = 'value'
            except BaseException as ex:   # noqa: BLE001
                res = 'exc:' + type(ex).__name__ + (':' + str(ex)[:150] if mode == 'deep' else '')
            fo.write(json.dumps({'i': i, 'name': name, 'res': res}) + '\n'); fo.flush()


if __name__ == '__main__':
    main()
