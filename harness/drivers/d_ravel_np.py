"""numpy: the flat dtype must be the JOINT promotion of all leaves for every ordered triple of dtypes (pairwise promotion is order sensitive)."""
import itertools, json, sys
import numpy as np
import optree.integration.numpy as onp
DT = ['bool', 'int8', 'int16', 'int32', 'int64', 'uint8', 'uint16', 'uint32', 'uint64', 'float16', 'float32', 'float64', 'complex64', 'complex128']
bad, n = [], 0
for trip in itertools.permutations(DT, 3):
    arrs = [np.ones((2,), dtype=d) for d in trip]
    flat, unravel = onp.tree_ravel(arrs)
    n += 1
    exp = np.result_type(*arrs)
    ok = flat.dtype == exp
    if ok:
        try:
            back = unravel(np.ones(6, dtype=exp))
            ok = [str(a.dtype) for a in back] == list(trip)
        except Exception:   # noqa: BLE001
            ok = False
    if not ok:
        bad.append({'dtypes': list(trip), 'got': str(flat.dtype), 'exp': str(exp)})
json.dump({'n': n, 'bad': bad}, open(sys.argv[1], 'w'))
