"""Driver: execute the flatten / unflatten / inspection entry points of the REAL optree on model trees and
log every call as a judge case (inputs and outputs projected into the model encodings).

usage: python -m harness.drivers.d_tree IN.ndjson OUT.ndjson families
  IN : one JSON object per line {"t": tree, "cfgs": [cfg, ...]}
  families: comma list of flatten,roundtrip,inspect
"""
import json, sys, os, itertools, multiprocessing as mp

from harness.drivers import pmap
import optree
from harness import vuniv as U


def proj_path(p):
    return [U.proj_key(e) for e in p]


def type_tag(ty):
    return {tuple: 101, list: 102, dict: 103, U.OrderedDict: 104, U.defaultdict: 105, U.deque: 106}.get(ty) or U.CLS_ID.get(ty, -7)


def proj_acc(a):
    return [{'e': U.proj_key(e.entry), 'kind': int(e.kind), 'ty': type_tag(e.type), 'ecls': type(e).__name__,
             'name': e.field if isinstance(e, (optree.NamedTupleEntry, optree.StructSequenceEntry)) else ''} for e in a]


EVAL_GLOBALS = {'KOrd': U.KOrd, 'KUnord': U.KUnord, 'AOrd': U.Wrap.AOrd, 'KTie': U.KTie}


def accessor_laws(accs, obj, ctx, spec):
    """C04: composition / slicing, equality+hash across routes, codify/eval; identities are logged as model ids"""
    out = {'split': [], 'code': [], 'eq_routes': True, 'hash_routes': True, 'path_attr': True, 'slices_typed': True}
    routes = [optree.treespec_accessors(spec), spec.accessors()]
    for r in routes:
        if list(r) != list(accs):
            out['eq_routes'] = False
        if [hash(x) for x in r] != [hash(x) for x in accs]:
            out['hash_routes'] = False
    for a in accs:
        hits = []
        for j in range(len(a) + 1):
            head, tail = a[:j], a[j:]
            if type(head) is not optree.PyTreeAccessor or type(tail) is not optree.PyTreeAccessor or (head + tail) != a \
                    or hash(head + tail) != hash(a):
                out['slices_typed'] = False
            try:
                hits.append(ctx.id_of(tail(head(obj)), fresh=False))
            except Exception:  # noqa: BLE001
                hits.append(-99)
        out['split'].append(hits)
        if a.path != tuple(e.entry for e in a):
            out['path_attr'] = False
        try:
            out['code'].append(ctx.id_of(eval(a.codify('t'), dict(EVAL_GLOBALS, t=obj)), fresh=False))  # noqa: S307
        except Exception:  # noqa: BLE001
            out['code'].append(-97)
    return out


def guard(fn):
    try:
        return fn()
    except Exception as ex:   # noqa: BLE001
        return {'err': U.exc_class(ex)}


def flatten_family(t, cfg, ctx, obj, eps=None, laws=False):
    """all eight entry points (or the subset `eps`) on one (tree, cfg)"""
    kw = dict(none_is_leaf=cfg['nil'], namespace=cfg['ns'])
    pred = U.make_pred(cfg, ctx)
    outs = []

    def ep(name, fn):
        if eps is not None and name not in eps:
            return None
        o = guard(fn)
        o['ep'] = name
        outs.append(o)
        return o

    def f_flatten():
        leaves, spec = optree.tree_flatten(obj, pred, **kw)
        return {'err': '', 'leaves': U.leaf_ids(leaves, ctx), 'spec': U.project_spec(spec)}

    def f_path():
        paths, leaves, spec = optree.tree_flatten_with_path(obj, pred, **kw)
        return {'err': '', 'paths': [proj_path(p) for p in paths], 'leaves': U.leaf_ids(leaves, ctx), 'spec': U.project_spec(spec)}

    def f_acc():
        accs, leaves, spec = optree.tree_flatten_with_accessor(obj, pred, **kw)
        hits = []
        for a in accs:
            try:
                hits.append(ctx.id_of(a(obj), fresh=False))
            except Exception as ex:  # noqa: BLE001
                hits.append(-99)
        o = {'err': '', 'accs': [proj_acc(a) for a in accs], 'leaves': U.leaf_ids(leaves, ctx), 'spec': U.project_spec(spec),
             'paths': [proj_path(a.path) for a in accs], 'hits': hits}
        if laws:
            o['laws'] = accessor_laws(accs, obj, ctx, spec)
        return o

    with U.modes(cfg['modes']):
        ep('tree_flatten', f_flatten)
        ep('tree_flatten_with_path', f_path)
        ep('tree_flatten_with_accessor', f_acc)
        ep('tree_leaves', lambda: {'err': '', 'leaves': U.leaf_ids(optree.tree_leaves(obj, pred, **kw), ctx)})
        ep('tree_iter', lambda: {'err': '', 'leaves': U.leaf_ids(list(optree.tree_iter(obj, pred, **kw)), ctx)})
        ep('tree_structure', lambda: {'err': '', 'spec': U.project_spec(optree.tree_structure(obj, pred, **kw))})
        ep('tree_paths', lambda: {'err': '', 'paths': [proj_path(p) for p in optree.tree_paths(obj, pred, **kw)]})
        ep('tree_accessors', lambda: {'err': '', 'accs': [proj_acc(a) for a in optree.tree_accessors(obj, pred, **kw)]})
    return {'op': 'flatten', 't': t, 'cfg': cfg, 'outs': outs}


def roundtrip(t, cfg, ctx, obj):
    """C01: one composite case per (tree, cfg): flatten, three rebuild routes, re-flatten, replacement leaves, wrong counts"""
    kw = dict(none_is_leaf=cfg['nil'], namespace=cfg['ns'])
    pred = U.make_pred(cfg, ctx)

    def flat(o):
        with U.modes(cfg['modes']):
            try:
                leaves, spec = optree.tree_flatten(o, pred, **kw)
                return leaves, spec, {'err': '', 'leaves': U.leaf_ids(leaves, ctx), 'spec': U.project_spec(spec)}
            except Exception as ex:  # noqa: BLE001
                return None, None, {'err': U.exc_class(ex)}

    leaves, spec, f = flat(obj)
    case = {'op': 'roundtrip', 't': t, 'cfg': cfg, 'flat': f, 'rebuilt': [], 'bad': []}
    if spec is None:
        return [case]

    def tmap():
        with U.modes(cfg['modes']):
            return optree.tree_map(lambda x: x, obj, is_leaf=pred, **kw)
    first = None
    # modes are NOT active while unflattening, on purpose: a treespec must not depend on them
    for name, fn in (('tree_unflatten', lambda: optree.tree_unflatten(spec, leaves)),
                     ('PyTreeSpec.unflatten', lambda: spec.unflatten(iter(leaves))),
                     ('tree_map(identity)', tmap)):
        try:
            rebuilt = fn()
            case['rebuilt'].append({'via': name, 'err': '', 'tree': U.project(rebuilt, ctx)})
            if first is None:
                first = rebuilt
        except Exception as ex:  # noqa: BLE001
            case['rebuilt'].append({'via': name, 'err': U.exc_class(ex)})
    if first is not None:
        case['again'] = flat(first)[2]
    n = len(leaves)
    rep = ctx.new_leaves(n)[::-1]
    r = {'ids': U.leaf_ids(rep, ctx)}
    try:
        t2 = optree.tree_unflatten(spec, rep)
        r.update(err='', tree=U.project(t2, ctx), again=flat(t2)[2])
    except Exception as ex:  # noqa: BLE001
        r.update(err=U.exc_class(ex))
    case['rep'] = r
    for bad, tag in ((rep + ctx.new_leaves(1), 'too-many'), (rep[1:], 'too-few')):
        if tag == 'too-few' and n == 0:
            continue
        try:
            optree.tree_unflatten(spec, bad)
            case['bad'].append({'tag': tag, 'err': ''})
        except Exception as ex:  # noqa: BLE001
            case['bad'].append({'tag': tag, 'err': U.exc_class(ex)})
    return [case]


def _c03_extra(t, cfg, ctx, obj):
    """C03 beyond the eight flatteners: tree_is_leaf / all_leaves, reductions vs Python folds, hash/repr of the treespecs
    returned by different entry points, paths/accessors recomputed from the treespec alone"""
    import functools, operator
    kw = dict(none_is_leaf=cfg['nil'], namespace=cfg['ns'])
    pred = U.make_pred(cfg, ctx)
    case = {'op': 'c03extra', 't': t, 'cfg': cfg}
    with U.modes(cfg['modes']):
        try:
            leaves, spec = optree.tree_flatten(obj, pred, **kw)
        except Exception as ex:  # noqa: BLE001
            case['err'] = U.exc_class(ex)
            return [case]
        case['err'] = ''
        case['leaves'] = U.leaf_ids(leaves, ctx)
        specs = [spec, optree.tree_flatten_with_path(obj, pred, **kw)[2], optree.tree_flatten_with_accessor(obj, pred, **kw)[2],
                 optree.tree_structure(obj, pred, **kw)]
        case['specs_equal'] = all(a == spec and not (a != spec) for a in specs)
        case['specs_hash'] = len({hash(a) for a in specs}) == 1
        case['specs_repr'] = len({repr(a) for a in specs}) == 1
        case['spec_paths'] = [proj_path(p) for p in spec.paths()]
        case['spec_accs'] = [proj_acc(a) for a in spec.accessors()]
        case['tree_paths'] = [proj_path(p) for p in optree.tree_paths(obj, pred, **kw)]
        case['tree_accs'] = [proj_acc(a) for a in optree.tree_accessors(obj, pred, **kw)]
        case['counts'] = [spec.num_leaves, len(spec), len(leaves)]
        # tree_is_leaf on every subtree object reachable in the model tree
        subs = []

        def walk(m, o):
            subs.append({'id': m['id'] if m['k'] != 'none' else 0, 'k': m['k'], 'is_leaf': bool(optree.tree_is_leaf(o, pred, **kw)),
                         'sub': m})
            if m['k'] in ('leaf', 'none', 'sub'):
                return
            kids = list(o.values()) if isinstance(o, dict) else o.children if isinstance(o, U._CustomBase) else list(o)
            for mm, oo in zip(m['ch'], kids):
                walk(mm, oo)
        walk(t, obj)
        case['is_leaf'] = subs[:40]
        case['all_leaves_of_leaves'] = bool(optree.all_leaves(leaves, pred, **kw))
        kids = list(obj.values()) if isinstance(obj, dict) else list(obj) if isinstance(obj, (list, tuple, U.deque)) else None
        if kids is not None and type(obj) not in (U.SubList, U.SubDict, U.SubTuple):
            case['all_leaves_children'] = {'v': bool(optree.all_leaves(kids, pred, **kw)), 'n': len(kids)}
        # folds (only when every leaf is a plain Leaf object: they carry arithmetic)
        if leaves and all(type(x) is U.Leaf for x in leaves):
            # total: a fold that raises although the flatten of the same tree succeeded is recorded as a value no fold can have
            def num(fn):
                try:
                    v = fn()
                    return v.n if type(v) is U.Leaf else v
                except Exception:  # noqa: BLE001
                    return -987654

            def boo(fn, py):
                try:
                    return bool(fn())
                except Exception:  # noqa: BLE001
                    return not py
            py_all, py_any = all(leaves), any(leaves)
            case['folds'] = {
                'reduce': num(lambda: optree.tree_reduce(operator.add, obj, is_leaf=pred, **kw)), 'py_reduce': num(lambda: functools.reduce(operator.add, leaves)),
                'reduce_init': num(lambda: optree.tree_reduce(operator.add, obj, 1000, is_leaf=pred, **kw)),
                'sum': num(lambda: optree.tree_sum(obj, is_leaf=pred, **kw)), 'py_sum': num(lambda: sum(leaves)),
                'max': num(lambda: optree.tree_max(obj, is_leaf=pred, **kw)), 'min': num(lambda: optree.tree_min(obj, is_leaf=pred, **kw)),
                'all': boo(lambda: optree.tree_all(obj, is_leaf=pred, **kw), py_all), 'any': boo(lambda: optree.tree_any(obj, is_leaf=pred, **kw), py_any),
                'py_all': py_all, 'py_any': py_any,
            }
    return [case]


def c03_extra(t, cfg, ctx, obj):
    """total wrapper: an entry point that raises although tree_flatten of the same tree succeeded is itself the observation"""
    try:
        return _c03_extra(t, cfg, ctx, obj)
    except Exception as ex:  # noqa: BLE001
        return [{'op': 'c03extra', 't': t, 'cfg': cfg, 'err': 'after-flatten:' + U.exc_class(ex)}]


def depth_cases(cfg0):
    """C03/C16: nesting around MAX_RECURSION_DEPTH for every node kind; self-reference; non-terminating custom flatten.
    Bound to the specification by offset: the model runs the same scenario at MaxDepth=4."""
    import collections
    M = optree.MAX_RECURSION_DEPTH
    out = []

    def chain(kind, n, leaf):
        x = leaf
        for _ in range(n):
            if kind == 'tuple':
                x = (x,)
            elif kind == 'list':
                x = [x]
            elif kind == 'dict':
                x = {'a': x}
            elif kind == 'odict':
                x = U.OrderedDict(a=x)
            elif kind == 'ddict':
                x = U.defaultdict(list, a=x)
            elif kind == 'deque':
                x = U.deque([x])
            elif kind == 'nt':
                x = U.NT1(x)
            elif kind == 'ss':
                x = U.SS2((x, 0.0))
            elif kind == 'custom':
                x = U.CA([x], 1)
        return x

    def run_all(obj, nil, pred=None):
        kw = dict(none_is_leaf=nil, is_leaf=pred)
        outs = []
        for name, fn in (('tree_flatten', lambda: len(optree.tree_flatten(obj, **kw)[0])),
                         ('tree_flatten_with_path', lambda: len(optree.tree_flatten_with_path(obj, **kw)[1])),
                         ('tree_flatten_with_accessor', lambda: len(optree.tree_flatten_with_accessor(obj, **kw)[1])),
                         ('tree_leaves', lambda: len(optree.tree_leaves(obj, **kw))),
                         ('tree_iter', lambda: len(list(optree.tree_iter(obj, **kw)))),
                         ('tree_structure', lambda: optree.tree_structure(obj, **kw).num_leaves),
                         ('tree_paths', lambda: len(optree.tree_paths(obj, **kw))),
                         ('tree_accessors', lambda: len(optree.tree_accessors(obj, **kw)))):
            try:
                outs.append({'ep': name, 'err': '', 'n': fn()})
            except Exception as ex:  # noqa: BLE001
                outs.append({'ep': name, 'err': U.exc_class(ex)})
        return outs
    import sys
    sys.setrecursionlimit(max(sys.getrecursionlimit(), 20000))
    for kind in ('tuple', 'list', 'dict', 'odict', 'ddict', 'deque', 'nt', 'ss', 'custom'):
        for delta in (-2, -1, 0, 1, 2):
            for nil in (False, True):
                obj = chain(kind, M + delta, U.Leaf(1))
                out.append({'op': 'depth', 'kind': kind, 'delta': delta, 'nil': nil, 'depth': M + delta, 'pred': False, 'outs': run_all(obj, nil)})
                # with a predicate that accepts the (possibly over-deep) leaf: the depth check still comes first
                out.append({'op': 'depth', 'kind': kind, 'delta': delta, 'nil': nil, 'depth': M + delta, 'pred': True,
                            'outs': run_all(obj, nil, lambda x: type(x) is U.Leaf)})
                obj = None
    # self-referential containers and a custom node whose flatten never terminates
    l = []
    l.append(l)
    out.append({'op': 'depth', 'kind': 'self-list', 'delta': 99, 'nil': False, 'depth': 0, 'pred': False, 'outs': run_all(l, False)})
    d = {}
    d['a'] = d
    out.append({'op': 'depth', 'kind': 'self-dict', 'delta': 99, 'nil': False, 'depth': 0, 'pred': False, 'outs': run_all(d, False)})

    class Endless(U.CA):
        def tree_flatten(self):
            return ((Endless([], 1),), U.mk_meta(1))
    optree.register_pytree_node_class(Endless, namespace=U.GLOBAL_NAMESPACE)
    try:
        out.append({'op': 'depth', 'kind': 'endless-custom', 'delta': 99, 'nil': False, 'depth': 0, 'pred': False, 'outs': run_all(Endless([], 1), False)})
    finally:
        optree.unregister_pytree_node(Endless, namespace=U.GLOBAL_NAMESPACE)
    return out


def shuffled(t, rng):
    """the same mapping(s), other insertion orders (dict / defaultdict only; OrderedDict order is significant)"""
    kids = [shuffled(c, rng) for c in t['ch']]
    t2 = dict(t, ch=kids)
    if t['k'] in ('dict', 'ddict') and len(kids) > 1:
        perm = list(range(len(kids)))
        rng.shuffle(perm)
        t2['ch'] = [kids[i] for i in perm]
        t2['keys'] = [t['keys'][i] for i in perm]
    return t2


def class_objects_are_leaves():
    """C02: an object is a node only if ITS exact type is registered; class objects (even namedtuple / struct-sequence /
    registered classes) sitting in a tree are therefore leaves"""
    out = []
    for name, cls in (('namedtuple-class', U.NT2), ('structseq-class', U.SS2), ('registered-class', U.CA), ('builtin-class', dict), ('type', type)):
        for nil in (False, True):
            for ns in ('', 'a'):
                tree = {'cls': cls, 'args': (1, [cls])}
                try:
                    leaves, spec = optree.tree_flatten(tree, none_is_leaf=nil, namespace=ns)
                    ok = len(leaves) == 3 and leaves[1] is cls and leaves[2] is cls and optree.tree_is_leaf(cls, none_is_leaf=nil, namespace=ns) \
                        and optree.all_leaves([cls, 1], none_is_leaf=nil, namespace=ns) and list(optree.tree_iter(tree, none_is_leaf=nil, namespace=ns))[2] is cls \
                        and optree.tree_flatten_with_path(tree, none_is_leaf=nil, namespace=ns)[1][2] is cls
                    err = ''
                except Exception as ex:  # noqa: BLE001
                    ok, err = False, U.exc_class(ex)
                out.append({'op': 'class-object-leaf', 'name': name, 'nil': nil, 'ns': ns, 'ok': bool(ok), 'err': err})
    return out


def c02_laws(t, cfg, ctx, obj):
    """C02 consequences, observed on the real code: permutation invariance, None removal, predicate refinement, replace_nones"""
    import random
    kw = dict(namespace=cfg['ns'])
    pred = U.make_pred(cfg, ctx)
    case = {'op': 'c02laws', 't': t, 'cfg': cfg}

    def fl(o, p, nil):
        try:
            leaves, spec = optree.tree_flatten(o, p, none_is_leaf=nil, **kw)
            return {'err': '', 'leaves': U.leaf_ids(leaves, ctx), 'spec': U.project_spec(spec)}, leaves
        except Exception as ex:  # noqa: BLE001
            return {'err': U.exc_class(ex)}, []
    with U.modes(cfg['modes']):
        case['nilF'], _ = fl(obj, pred, False)
        case['nilT'], _ = fl(obj, pred, True)
        case['withpred'], lv = fl(obj, pred, cfg['nil'])
        case['nopred'], _ = fl(obj, None, cfg['nil'])
        parts = []
        for x in lv:
            r, _ = fl(x, None, cfg['nil'])
            parts.append(r)
        case['parts'] = parts
        t2 = shuffled(t, random.Random(hash(json.dumps(t)) & 0xffff))
        # same leaf objects, other insertion order: realise with the same context so that leaf ids map to the same objects
        obj2 = U.realise(t2, ctx)   # same leaf objects; twin containers share the model id of their original
        case['t2'] = t2
        case['shuf'], _ = fl(obj2, pred, cfg['nil'])
        sent = ctx.new_leaves(1)[0]
        try:
            rn = optree.tree_replace_nones(sent, obj, namespace=cfg["ns"])
            case['replace_nones'] = {'err': '', 'tree': U.project(rn, ctx), 'sentinel': ctx.id_of(sent)}
        except Exception as ex:  # noqa: BLE001
            case['replace_nones'] = {'err': U.exc_class(ex)}
    return [case]


def strip_container_ids(t):
    if t['k'] in ('leaf', 'sub'):
        return t
    return dict(t, id=-1, ch=[strip_container_ids(c) for c in t['ch']])


def _same_key(a, b):
    return a is b or a == b


def inspect_case(spec, cfg=None, modes=()):
    """every inspection method of one treespec"""
    n = spec.num_children

    def idx(fn, i, proj):
        try:
            return {'i': i, 'err': '', 'v': proj(fn(i))}
        except Exception as ex:  # noqa: BLE001
            return {'i': i, 'err': U.exc_class(ex)}

    ol = spec.one_level()
    ty = spec.type
    o = {
        'num_leaves': spec.num_leaves, 'num_nodes': spec.num_nodes, 'num_children': spec.num_children, 'len': len(spec),
        'kind': int(spec.kind), 'type': 0 if ty is None else 100 if ty is type(None) else type_tag(ty),
        'is_leaf': spec.is_leaf(strict=False) and optree.treespec_is_leaf(spec, strict=False),
        'is_strict_leaf': spec.is_leaf(strict=True) and optree.treespec_is_strict_leaf(spec) and optree.treespec_is_leaf(spec) and spec.is_leaf(),
        'is_one_level': spec.is_one_level(),
        'paths': [proj_path(p) for p in spec.paths()], 'accs': [proj_acc(a) for a in spec.accessors()],
        'entries': [U.proj_key(e) for e in spec.entries()],
        'children': [U.project_spec(c) for c in spec.children()],
        'one_level_none': ol is None, 'one_level': U.project_spec(ol) if ol is not None else 0,
        'child': [idx(spec.child, i, U.project_spec) for i in range(-n - 1, n + 1)],
        'entry': [idx(spec.entry, i, U.proj_key) for i in range(-n - 1, n + 1)],
    }
    import re
    # the function spellings (optree.treespec_*) and the alias modules are the same operations as the methods
    try:
        fe = (optree.treespec_paths(spec) == spec.paths() and optree.treespec_accessors(spec) == spec.accessors()
              and optree.treespec_entries(spec) == spec.entries() and optree.treespec_children(spec) == spec.children()
              and optree.treespec_is_one_level(spec) == spec.is_one_level()
              and (optree.treespec_one_level(spec) == spec.one_level())
              and all(optree.treespec_child(spec, i) == spec.child(i) and _same_key(optree.treespec_entry(spec, i), spec.entry(i)) for i in range(n))
              and optree.treespec_leaf(none_is_leaf=spec.none_is_leaf).is_leaf() and optree.treespec_none(none_is_leaf=False).num_leaves == 0
              and optree.treespec_none(none_is_leaf=True).is_leaf()
              and optree.pytree.flatten is optree.tree_flatten and optree.pytree.unflatten is optree.tree_unflatten
              and optree.pytree.map is optree.tree_map and optree.pytree.iter is optree.tree_iter
              and optree.treespec.from_collection is optree.treespec_from_collection and optree.treespec.tuple is optree.treespec_tuple
              and all(getattr(optree.pytree, nm) is getattr(optree, 'tree_' + nm, getattr(optree, nm, None))
                      for nm in optree.pytree.__all__ if hasattr(optree, 'tree_' + nm))
              and all(getattr(optree.treespec, nm) is getattr(optree, 'treespec_' + nm) for nm in optree.treespec.__all__))
    except Exception:  # noqa: BLE001
        fe = False
    o['function_forms_equal'] = bool(fe)
    o['repr'] = re.sub(r' at 0x[0-9a-f]+', '', repr(spec))
    o['str_is_repr'] = str(spec) == repr(spec)
    # rebuilding the root from its one-level spec and its children
    routes = []
    if ol is not None:
        kids = spec.children()
        nil, ns = spec.none_is_leaf, spec.namespace
        kw = dict(none_is_leaf=nil, namespace=ns)
        ents = spec.entries()

        def via_transform():
            it = iter(kids)
            return ol.transform(None, lambda _leaf: next(it))

        def via_collection():
            return optree.treespec_from_collection(optree.tree_unflatten(ol, kids), **kw)

        def via_named():
            k = int(spec.kind)
            if k == U.NTUPLE:
                return optree.treespec_tuple(kids, **kw)
            if k == U.NLIST:
                return optree.treespec_list(kids, **kw)
            if k == U.NDICT:
                return optree.treespec_dict(dict(zip(ents, kids)), **kw)
            if k == U.NODICT:
                return optree.treespec_ordereddict(U.OrderedDict(zip(ents, kids)), **kw)
            if k == U.NDDICT:
                fac = spec.__getstate__()[0][-1][2][0]
                return optree.treespec_defaultdict(fac, dict(zip(ents, kids)), **kw)
            if k == U.NDEQUE:
                return optree.treespec_deque(kids, maxlen=spec.__getstate__()[0][-1][2], **kw)
            if k == U.NNT:
                return optree.treespec_namedtuple(spec.type(*kids), **kw)
            if k == U.NSS:
                return optree.treespec_structseq(spec.type(tuple(kids)), **kw)
            if k == U.NNONE:
                return optree.treespec_none(**kw)
            return None     # custom: only through from_collection / transform
        for name, fn in (('transform', via_transform), ('from_collection', via_collection), ('constructor', via_named),
                         ('transform(id,id)', lambda: spec.transform(lambda x: x, lambda x: x)),
                         ('treespec_transform(None,None)', lambda: optree.treespec_transform(spec))):
            try:
                with U.modes(modes):       # constructors read the dict-order mode: rebuild under the mode the spec was made in
                    r = fn()
                if r is not None:
                    routes.append({'route': name, 'err': '', 'spec': U.project_spec(r), 'paths': [proj_path(p) for p in r.paths()],
                                   'eq': r == spec and hash(r) == hash(spec)})
            except Exception as ex:   # noqa: BLE001
                routes.append({'route': name, 'err': U.exc_class(ex), 'msg': str(ex)[:200]})
    o['routes'] = routes
    return {'op': 'inspect', 'spec': U.project_spec(spec), 'out': o}


def from_collection_case(t, cfg, kid_cfgs):
    """treespec_from_collection (and the named constructor of the root's kind) on a collection whose children are treespecs made
    under the option sets kid_cfgs[i] (so that none_is_leaf / namespace mismatches and merges occur)"""
    import warnings
    if t['k'] in ('leaf', 'none', 'sub') or any(c['id'] <= 0 for c in t['ch']) or len({c['id'] for c in t['ch']}) != len(t['ch']):
        return []
    ctx = U.Ctx()
    kids = [U.realise(c, ctx) for c in t['ch']]
    specs = []
    for ch, kc, o in zip(t['ch'], kid_cfgs, kids):
        with U.modes(kc['modes']):
            specs.append(optree.tree_structure(o, none_is_leaf=kc['nil'], namespace=kc['ns']))
    coll = U.realise(t, ctx, {c['id']: s for c, s in zip(t['ch'], specs)})
    kw = dict(none_is_leaf=cfg['nil'], namespace=cfg['ns'])
    outs = []

    def call(via, fn):
        with warnings.catch_warnings(record=True) as w:
            warnings.simplefilter('always')
            try:
                with U.modes(cfg['modes']):
                    r = fn()
                outs.append({'via': via, 'err': '', 'spec': U.project_spec(r), 'warned': any(issubclass(x.category, UserWarning) for x in w)})
            except Exception as ex:  # noqa: BLE001
                outs.append({'via': via, 'err': U.exc_class(ex)})
    call('treespec_from_collection', lambda: optree.treespec_from_collection(coll, **kw))
    call('optree.treespec.from_collection', lambda: optree.treespec.from_collection(coll, **kw))
    k = t['k']
    named = {'tuple': lambda: optree.treespec_tuple(coll, **kw), 'list': lambda: optree.treespec_list(coll, **kw),
             'dict': lambda: optree.treespec_dict(coll, **kw), 'odict': lambda: optree.treespec_ordereddict(coll, **kw),
             'ddict': lambda: optree.treespec_defaultdict(coll.default_factory, coll, **kw),
             'deque': lambda: optree.treespec_deque(coll, maxlen=coll.maxlen, **kw),
             'nt': lambda: optree.treespec_namedtuple(coll, **kw), 'ss': lambda: optree.treespec_structseq(coll, **kw)}.get(k)
    if named:
        call('named-constructor', named)
    return [{'op': 'fromcoll', 't': t, 'cfg': cfg, 'kidspecs': [U.project_spec(s) for s in specs], 'outs': outs}]


def work(line):
    item = json.loads(line)
    fams = item['fams']
    t = item['t']
    out = []
    for cfg in item['cfgs']:
        ctx = U.Ctx()
        if 'hist' in item:
            obj = U.realise(t, ctx, {item['hist']['id']: U.realise_hist(item['hist'], ctx)})
        else:
            obj = U.realise(t, ctx)
        # self-check of the binding: project(realise(t)) == t
        back = U.project(obj, ctx)
        if back != t:
            # for history-built containers this says: the model of Python's container semantics (HistGen) is wrong
            out.append({'op': 'selfcheck-failed', 't': t, 'back': back, 'hist': item.get('hist')})
            continue
        if 'flatten' in fams:
            out.append(flatten_family(t, cfg, ctx, obj, item.get('eps'), 'acclaws' in fams))
        if 'fromcoll' in fams:
            n = len(t['ch'])
            import random as _r
            rr = _r.Random(hash(json.dumps(t)) & 0xffff)
            same = [cfg] * n
            mixed = [rr.choice(item['kidcfgs']) for _ in range(n)]
            out.extend(from_collection_case(t, cfg, same))
            out.extend(from_collection_case(t, cfg, mixed))
            continue
        if 'c03extra' in fams:
            out.extend(c03_extra(t, cfg, ctx, obj))
        if 'c02laws' in fams:
            out.extend(c02_laws(t, cfg, ctx, obj))
        if 'roundtrip' in fams:
            out.extend(roundtrip(t, cfg, ctx, obj))
        if 'inspect' in fams:
            with U.modes(cfg['modes']):
                try:
                    spec = optree.tree_structure(obj, U.make_pred(cfg, ctx), none_is_leaf=cfg['nil'], namespace=cfg['ns'])
                except Exception:  # noqa: BLE001
                    spec = None
            if spec is not None:
                out.append(inspect_case(spec, cfg, cfg['modes']))
    if 'hist' in item:
        for c in out:
            c['hist'] = item['hist']
    return [json.dumps(c, separators=(',', ':')) for c in out]


def init():
    U.setup_world()


def main():
    inp, outp, fams = sys.argv[1], sys.argv[2], sys.argv[3].split(',')
    lines = []
    for l in open(inp):
        d = json.loads(l)
        d['fams'] = fams
        lines.append(json.dumps(d))
    if 'classobj' in fams:
        init()
        with open(outp, 'w') as fh:
            for c in class_objects_are_leaves():
                fh.write(json.dumps(c, separators=(',', ':')) + '\n')
        return
    if 'depth' in fams:
        init()
        with open(outp, 'w') as fh:
            for c in depth_cases(None):
                fh.write(json.dumps(c, separators=(',', ':')) + '\n')
        return
    with open(outp, 'w') as fh:
        for res in pmap(work, lines, init=init, chunksize=16):
            for c in res:
                fh.write(c + '\n')


if __name__ == '__main__':
    main()
