"""Driver for pickling (C11).

phase A (process A):  python -m harness.drivers.d_pickle dump IN.ndjson BLOBS.ndjson CASES_A.ndjson
   for every (tree, cfg): treespec -> pickle.dumps with protocols 2..5 (0/1 probed), same-process loads / copy / deepcopy /
   __setstate__, all observables projected; blobs written (hex) for phase B.
phase B (fresh interpreter, registry history of the loading process = WORLD):
   python -m harness.drivers.d_pickle load WORLD BLOBS.ndjson CASES_B.ndjson
"""
import copy, json, os, pickle, re, sys, multiprocessing as mp

from harness.drivers import pmap
import optree
from harness import vuniv as U
from harness.drivers.d_tree import proj_path, proj_acc

WORLDS = {
    'same': U.REG0,
    'missing-a2': [r for r in U.REG0 if r != ['a', 2]],
    'missing-global1': [r for r in U.REG0 if r != ['', 1]],
    'only-b3': [['b', 3]],
    'rereg': U.REG0,        # every registration removed and made again (new registration objects)
    'a3-missing-b3-present': [r for r in U.REG0 if r != ['a', 3]],
}


def observe(loaded, orig_proj, via, ctx, same_obj=None):
    n = loaded.num_leaves
    leaves = ctx.new_leaves(n)
    o = {'via': via, 'err': '', 'spec': U.project_spec(loaded), 'repr': re.sub(r' at 0x[0-9a-f]+', '', repr(loaded)),
         'paths': [proj_path(p) for p in loaded.paths()], 'accs': [proj_acc(a) for a in loaded.accessors()],
         'entries': [U.proj_key(e) for e in loaded.entries()], 'children': [U.project_spec(c) for c in loaded.children()],
         'leaves': U.leaf_ids(leaves, ctx), 'tree': U.project(loaded.unflatten(leaves), ctx)}
    if same_obj is not None:
        o['eq'] = loaded == same_obj and same_obj == loaded and not (loaded != same_obj)
        o['hash_eq'] = hash(loaded) == hash(same_obj)
    return o


def dump_work(line):
    item = json.loads(line)
    t = item['t']
    out_cases, out_blobs = [], []
    for cfg in item['cfgs']:
        ctx = U.Ctx()
        obj = U.realise(t, ctx)
        with U.modes(cfg['modes']):
            try:
                spec = optree.tree_structure(obj, U.make_pred(cfg, ctx), none_is_leaf=cfg['nil'], namespace=cfg['ns'])
            except Exception:   # noqa: BLE001
                continue
        ps = U.project_spec(spec)
        loads = []
        protos = {}
        for proto in range(0, 6):
            try:
                blob = pickle.dumps(spec, proto)
                protos[proto] = blob
                loads.append(observe(pickle.loads(blob), ps, f'pickle-protocol-{proto}', ctx, spec))
            except Exception as ex:   # noqa: BLE001
                loads.append({'via': f'pickle-protocol-{proto}', 'err': U.exc_class(ex)})
        for via, fn in (('copy.copy', lambda: copy.copy(spec)), ('copy.deepcopy', lambda: copy.deepcopy(spec)),
                        ('getstate-setstate', lambda: _setstate(spec))):
            try:
                loads.append(observe(fn(), ps, via, ctx, spec))
            except Exception as ex:   # noqa: BLE001
                loads.append({'via': via, 'err': U.exc_class(ex)})
        out_cases.append({'op': 'pickle', 't': t, 'cfg': cfg, 'spec': ps, 'world': U.REG0, 'loads': loads})
        out_blobs.append({'t': t, 'cfg': cfg, 'spec': ps, 'blobs': {str(p): b.hex() for p, b in protos.items()}})
    return [json.dumps(c, separators=(',', ':')) for c in out_cases], [json.dumps(b, separators=(',', ':')) for b in out_blobs]


def _setstate(spec):
    new = optree.PyTreeSpec.__new__(optree.PyTreeSpec)
    new.__setstate__(spec.__getstate__())
    return new


def setup_loading_world(world):
    """the registry history of the loading process"""
    if world == 'rereg':
        U.setup_world()
        for ns, c in U.REG0:
            optree.unregister_pytree_node(U.CUSTOM[c], namespace=U.GLOBAL_NAMESPACE if ns == '' else ns)
        for ns, c in reversed(U.REG0):
            optree.register_pytree_node_class(U.CUSTOM[c], namespace=U.GLOBAL_NAMESPACE if ns == '' else ns)
        return
    for ns, c in WORLDS[world]:
        optree.register_pytree_node_class(U.CUSTOM[c], namespace=U.GLOBAL_NAMESPACE if ns == '' else ns)


def load_main(world, blobs_path, outp):
    setup_loading_world(world)
    U._registered = True
    reg = WORLDS[world]
    with open(outp, 'w') as fh:
        if os.path.exists(blobs_path + '.dual'):
            register_dual()
            fh.write(json.dumps(dual_case(f'fresh-process-{world}', bytes.fromhex(open(blobs_path + '.dual').read()))[0]) + '\n')
        for line in open(blobs_path):
            b = json.loads(line)
            ctx = U.Ctx()
            cfg, t = b['cfg'], b['t']
            loads = []
            loaded1 = None
            for proto, hx in b['blobs'].items():
                try:
                    loaded = pickle.loads(bytes.fromhex(hx))
                    loaded1 = loaded1 or loaded
                    o = observe(loaded, b['spec'], f'fresh-process-{world}-protocol-{proto}', ctx)
                    o['eq'] = o['hash_eq'] = True      # equality with the original is decided on the exact state (other process)
                    loads.append(o)
                except Exception as ex:   # noqa: BLE001
                    loads.append({'via': f'fresh-process-{world}-protocol-{proto}', 'err': U.exc_class(ex)})
            case = {'op': 'pickle', 't': t, 'cfg': cfg, 'spec': b['spec'], 'world': reg, 'loads': loads}
            if loaded1 is not None:
                # a treespec flattened afresh in the loading process
                obj = U.realise(t, ctx)
                with U.modes(cfg['modes']):
                    fresh = optree.tree_structure(obj, U.make_pred(cfg, ctx), none_is_leaf=cfg['nil'], namespace=cfg['ns'])
                used = {n['cls'] for n in U.subtrees(t) if n['k'] == 'custom'}

                def vis(regs, c):
                    return any(r[1] == c and r[0] in ('', cfg['ns']) for r in regs)
                case['fresh'] = {'spec': U.project_spec(fresh), 'eq': fresh == loaded1 and loaded1 == fresh, 'hash_eq': hash(fresh) == hash(loaded1),
                                 'same_class': all(vis(reg, c) == vis(U.REG0, c) for c in used) and not cfg['haspred']}
            fh.write(json.dumps(case, separators=(',', ':')) + '\n')


class Dual(U._CustomBase):
    """registered BOTH globally and in namespace 'dual', with different flatten functions: a pickled treespec must be re-bound to the
    registration of its recorded namespace (which shadows the global one), in this and in a fresh process"""


def _dual_flatten_global(x):
    return tuple(reversed(x.children)), ('meta', 100 + x.meta)


def _dual_flatten_ns(x):
    return tuple(x.children), ('meta', x.meta), tuple(range(10, 10 + len(x.children)))


def _dual_unflatten(meta, children):
    return Dual(list(children), meta[1])


def register_dual():
    optree.register_pytree_node(Dual, _dual_flatten_global, _dual_unflatten, namespace=U.GLOBAL_NAMESPACE)
    optree.register_pytree_node(Dual, _dual_flatten_ns, _dual_unflatten, namespace='dual')


def dual_case(where, blob=None):
    """returns the case dict; when blob is None it is created here (same-process variant) and returned hex-encoded as well"""
    tree = {'k': Dual([U.Leaf(3), (U.Leaf(4), None)], 7), 'j': [Dual([U.Leaf(0)], 8)]}
    fresh_ns = optree.tree_structure(tree, namespace='dual')
    fresh_gl = optree.tree_structure(tree)
    if blob is None:
        blob = pickle.dumps(fresh_ns)
    loaded = pickle.loads(blob)
    rebuilt = loaded.unflatten(list(range(loaded.num_leaves)))
    expect = fresh_ns.unflatten(list(range(fresh_ns.num_leaves)))

    def shape(x):
        return [(c.children, c.meta) if isinstance(c, Dual) else c for c in optree.tree_leaves(x, is_leaf=lambda y: isinstance(y, Dual))]
    return {'op': 'pickle-dual', 'where': where,
            'bound_to_namespace_registration': loaded == fresh_ns and hash(loaded) == hash(fresh_ns) and fresh_ns == loaded,
            'not_the_global_registration': loaded != fresh_gl,
            'paths': loaded.paths() == fresh_ns.paths() and loaded.entries() == fresh_ns.entries(),
            'unflatten': shape(rebuilt) == shape(expect), 'repr': repr(loaded) == repr(fresh_ns)}, blob.hex()


class HistNode(U._CustomBase):
    """same-process history: load, unregister, load, re-register with different functions, load (the unpickler must consult the
    registry as it is NOW, every time) and several pickle generations"""


def history_case():
    ns = 'phist'
    # (custom nodes with two plain leaves: the structure is the same under either registration, only the functions differ)
    tree = {'k': HistNode([U.Leaf(3), U.Leaf(4)], 7), 'j': [HistNode([U.Leaf(0), U.Leaf(1)], 8)], 'd': {'x': {}, 'y': U.defaultdict(int, q=1)}}

    def shape(x):
        return [(c.children, c.meta) if isinstance(c, HistNode) else c for c in optree.tree_leaves(x, is_leaf=lambda y: isinstance(y, HistNode))]
    out = {'op': 'pickle-history'}
    optree.register_pytree_node(HistNode, lambda x: (tuple(x.children), ('meta', x.meta)), lambda m, ch: HistNode(list(ch), m[1]), namespace=ns)
    try:
        spec1 = optree.tree_structure(tree, namespace=ns)
        blob = pickle.dumps(spec1)
        gens, cur = [], spec1
        for _ in range(3):
            try:
                cur = pickle.loads(pickle.dumps(cur))
                gens.append(cur == spec1 and hash(cur) == hash(spec1) and repr(cur) == repr(spec1))
            except Exception:  # noqa: BLE001
                gens.append(False)
                break
        out['generations_equal'] = gens == [True, True, True]
        optree.unregister_pytree_node(HistNode, namespace=ns)
        try:
            pickle.loads(blob)
            out['load_after_unregister_raises'] = False
        except Exception:  # noqa: BLE001
            out['load_after_unregister_raises'] = True
        # a different registration of the same class: children reversed, rebuilt reversed
        optree.register_pytree_node(HistNode, lambda x: (tuple(reversed(x.children)), ('meta', x.meta)),
                                    lambda m, ch: HistNode(list(reversed(ch)), m[1]), namespace=ns)
        fresh2 = optree.tree_structure(tree, namespace=ns)
        try:
            l4 = pickle.loads(blob)
            n = l4.num_leaves
            out['load_after_reregister_bound_to_current'] = (l4 == fresh2 and hash(l4) == hash(fresh2)
                                                             and shape(l4.unflatten(list(range(n)))) == shape(fresh2.unflatten(list(range(n)))))
        except Exception:  # noqa: BLE001
            out['load_after_reregister_bound_to_current'] = False
        out['old_treespec_alive'] = spec1.num_leaves == fresh2.num_leaves
    finally:
        try:
            optree.unregister_pytree_node(HistNode, namespace=ns)
        except Exception:  # noqa: BLE001
            pass
    return out


def malformed_main(outp):
    """single-field corruptions of valid states must raise a Python exception (never crash, never yield a treespec silently wrong)"""
    U.setup_world()
    import random
    rng = random.Random(0)
    res = []
    trees = [({'b': (1, 2), 'a': U.deque([3], maxlen=4)}, ''), (U.CB([1, 2], 1, [[1, 1], [1, 2]]), 'a'), (U.NT2(1, U.defaultdict(int, x=1)), ''),
             ([None, U.OrderedDict(a=1)], ''), (U.SS2((1, 2)), '')]
    for obj, ns in trees:
        spec = optree.tree_structure(obj, namespace=ns)
        nodes, nil, nsx = spec.__getstate__()
        for i in range(len(nodes)):
            for f in range(8):
                for bad in (None, -1, 'x', 99, (), [1], 3.5):
                    n2 = list(nodes)
                    node = list(n2[i])
                    if node[f] == bad:
                        continue
                    node[f] = bad
                    n2[i] = tuple(node)
                    st = (tuple(n2), nil, nsx)
                    try:
                        new = optree.PyTreeSpec.__new__(optree.PyTreeSpec)
                        new.__setstate__(st)
                        # accepted: it must then be a usable, self-consistent treespec
                        _ = repr(new), new.num_leaves, new.paths(), hash(new)
                        new.unflatten(range(new.num_leaves))
                        res.append('accepted')
                    except Exception as ex:   # noqa: BLE001
                        res.append(type(ex).__name__)
        for st in ((nodes, nil), (nodes, nil, nsx, 1), (nodes[:-1], nil, nsx), ((), nil, nsx), (nodes, 'x', nsx), (nodes, nil, 5), 7, None):
            try:
                new = optree.PyTreeSpec.__new__(optree.PyTreeSpec)
                new.__setstate__(st)
                _ = repr(new), new.num_leaves
                res.append('accepted')
            except Exception as ex:   # noqa: BLE001
                res.append(type(ex).__name__)
    import collections
    json.dump(dict(collections.Counter(res)), open(outp, 'w'))


def main():
    mode = sys.argv[1]
    if mode == 'dump':
        inp, blobs, outp = sys.argv[2:5]
        lines = list(open(inp))
        register_dual()
        dcase, dblob = dual_case('same-process')
        open(blobs + '.dual', 'w').write(dblob)
        with open(outp, 'w') as fc, open(blobs, 'w') as fb:
            for cs, bs in pmap(dump_work, lines, init=U.setup_world, chunksize=16):
                for c in cs:
                    fc.write(c + '\n')
                for b in bs:
                    fb.write(b + '\n')
            fc.write(json.dumps(dcase) + '\n')
            fc.write(json.dumps(history_case()) + '\n')
    elif mode == 'load':
        load_main(sys.argv[2], sys.argv[3], sys.argv[4])
    elif mode == 'malformed':
        malformed_main(sys.argv[2])


if __name__ == '__main__':
    main()
