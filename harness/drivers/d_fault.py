"""Fault-enumeration driver (C15): replays Engine behaviours (scenario, op, fault index) on the real optree, records the callback
trace for TLC (TraceEngine) and evaluates what no TLA+ value can express: exception identity, reference counts, unchanged
process-wide state, no stale hash/repr guard, and that the operation still works afterwards.

usage: python -m harness.drivers.d_fault engine IN.ndjson OUT.ndjson
       python -m harness.drivers.d_fault catalogue OUT.json
"""
import gc, json, os, sys, multiprocessing as mp

from harness.drivers import pmap
import optree
from harness import vuniv as U


class Boom(Exception):
    pass


class Recorder:
    def __init__(self, ctx, fault_at):
        self.ctx, self.fault_at, self.n, self.log, self.boom = ctx, fault_at, 0, [], None

    def __call__(self, kind, arg):
        self.n += 1
        if kind in ('is_leaf', 'f', 'flatten', 'f_leaf'):
            a = self.ctx.id_of(arg, fresh=False)
        elif kind == 'unflatten':
            a = U.proj_meta(arg) if isinstance(arg, tuple) else -5
        else:
            a = getattr(arg, 'v', -5)
        self.log.append({'cb': kind, 'arg': a})
        if self.n == self.fault_at:
            self.boom = Boom(f'fault at callback {self.n}')
            raise self.boom


def gc_all():
    for _ in range(3):
        gc.collect()


def state_fingerprint():
    reg = optree.register_pytree_node.get()
    return (tuple(sorted((t.__qualname__, id(h.flatten_func)) for t, h in reg.items())),
            tuple(optree._C.is_dict_insertion_ordered(ns, inherit_global_namespace=False) for ns in ('', 'a', 'b', 'zz')))


ENTRY = {
    'flatten': [
        ('tree_flatten', lambda o, p, kw, f: optree.tree_flatten(o, p, **kw)),
        ('tree_flatten_with_path', lambda o, p, kw, f: optree.tree_flatten_with_path(o, p, **kw)),
        ('tree_flatten_with_accessor', lambda o, p, kw, f: optree.tree_flatten_with_accessor(o, p, **kw)),
        ('tree_leaves', lambda o, p, kw, f: optree.tree_leaves(o, p, **kw)),
        ('tree_iter', lambda o, p, kw, f: list(optree.tree_iter(o, p, **kw))),
        ('tree_structure', lambda o, p, kw, f: optree.tree_structure(o, p, **kw)),
        ('tree_paths', lambda o, p, kw, f: optree.tree_paths(o, p, **kw)),
        ('tree_accessors', lambda o, p, kw, f: optree.tree_accessors(o, p, **kw)),
    ],
    'map': [
        ('tree_map', lambda o, p, kw, f: optree.tree_map(f, o, is_leaf=p, **kw)),
        ('tree_map_with_path', lambda o, p, kw, f: optree.tree_map_with_path(lambda path, x: f(x), o, is_leaf=p, **kw)),
        ('tree_map_with_accessor', lambda o, p, kw, f: optree.tree_map_with_accessor(lambda acc, x: f(x), o, is_leaf=p, **kw)),
    ],
}


def one_run(sc, op, name, fn, fault_at):
    """one execution of one entry point with the fault at callback #fault_at (0 = none)"""
    ctx = U.Ctx()
    obj = U.realise(sc['t'], ctx)
    cfg = sc['cfg']
    kw = dict(none_is_leaf=cfg['nil'], namespace=cfg['ns'])
    base_pred = U.make_pred(cfg, ctx)
    rec = Recorder(ctx, fault_at)
    pred = None
    if base_pred is not None:
        def pred(x):
            rec('is_leaf', x)
            return base_pred(x)

    def f(x):
        rec('f', x)
        return x
    # a treespec made beforehand: its hash/repr must be the same after a failed call (no stale re-entrancy guard)
    with U.modes(cfg['modes']):
        probe_spec = optree.tree_structure(obj, base_pred, **kw)
    h0, r0 = hash(probe_spec), repr(probe_spec)
    fp0 = state_fingerprint()
    watched = list(ctx.keep) + [probe_spec, f, obj]
    gc_all()
    before = [sys.getrefcount(o) for o in watched]
    U.HOOK = rec
    status, same_exc, result = 'done', True, None
    try:
        with U.modes(cfg['modes']):
            result = fn(obj, pred, kw, f)
    except Boom as ex:
        status = 'failed'
        same_exc = ex is rec.boom
        ex = None
    except RecursionError:
        status = 'recursion'
    except Exception as ex:   # noqa: BLE001
        status = 'other:' + type(ex).__name__
        ex = None
    finally:
        U.HOOK = None
    partial = result is not None and status != 'done'
    result = None
    rec.boom = None
    gc_all()
    after = [sys.getrefcount(o) for o in watched]
    ok_after = True
    try:
        with U.modes(cfg['modes']):
            again = optree.tree_structure(obj, base_pred, **kw)
        ok_after = again == probe_spec and hash(again) == h0
    except Exception:   # noqa: BLE001
        ok_after = False
    return {'sc': sc, 'op': op, 'entry': name, 'fault': fault_at, 'status': status, 'ev': rec.log,
            'py': {'same_exception': same_exc, 'no_partial_result': not partial,
                   'refcount_delta': sum(abs(a - b) for a, b in zip(after, before)),
                   'state_unchanged': state_fingerprint() == fp0,
                   'hash_repr_stable': hash(probe_spec) == h0 and repr(probe_spec) == r0,
                   'works_afterwards': ok_after}}


def engine_work(line):
    item = json.loads(line)
    out = []
    for name, fn in ENTRY[item['op']]:
        r = one_run(item['sc'], item['op'], name, fn, item['fault'])
        r['model_status'] = item['status']
        out.append(json.dumps(r, separators=(',', ':')))
    return out


# ---- catalogue: every public function that takes or reaches a callable -----------------------------------------------------
def catalogue():
    """fault at every callback index of many operations on scenario objects with callbacks at every node kind"""
    from collections import OrderedDict, defaultdict, deque
    U.setup_world()

    def scen():
        L = U.Leaf
        yield 'mixed', lambda: {'b': U.CA([L(1), (L(2), None)], 1), 'a': [U.CB([L(3)], 2, [[1, 1]]), deque([L(4)], maxlen=2)],
                                'c': U.NT2(L(5), OrderedDict(x=L(6)))}, ''
        yield 'hooked-keys', lambda: {U.KHook(2): L(1), U.KHook(1): (L(2), L(3)), U.KHook(3): [L(4)]}, ''
        yield 'mixed-hooked-keys', lambda: {U.KHook(2): L(1), 1: L(2), U.KHook(1): (L(3),), 'a': L(4), U.KHook(3): L(5)}, ''
        yield 'hooked-meta', lambda: [U.CM([L(1), L(2)], 1), (U.CM([L(3)], 2),), defaultdict(list, {U.KHook(1): L(4)})], 'm'
        yield 'nested-custom', lambda: U.CA([U.CB([U.CC([L(1)], 1), L(2)], 1, [[1, 1], [1, 2]]), {'k': L(3)}], 3), 'a'

    ops = []

    def op(name):
        def deco(fn):
            ops.append((name, fn))
            return fn
        return deco
    P = lambda rec: (lambda x: (rec('is_leaf', x), False)[1])     # noqa: E731
    F = lambda rec: (lambda x, *r: (rec('f', x), x)[1])           # noqa: E731

    @op('tree_flatten')
    def _(o, ns, rec, s0): return optree.tree_flatten(o, P(rec), namespace=ns)
    @op('tree_flatten_with_path')
    def _(o, ns, rec, s0): return optree.tree_flatten_with_path(o, P(rec), namespace=ns)
    @op('tree_flatten_with_accessor')
    def _(o, ns, rec, s0): return optree.tree_flatten_with_accessor(o, P(rec), namespace=ns)
    @op('tree_iter')
    def _(o, ns, rec, s0): return list(optree.tree_iter(o, P(rec), namespace=ns))
    @op('tree_leaves+structure')
    def _(o, ns, rec, s0): return optree.tree_leaves(o, P(rec), namespace=ns), optree.tree_structure(o, P(rec), namespace=ns)
    @op('tree_is_leaf/all_leaves')
    def _(o, ns, rec, s0): return optree.tree_is_leaf(o, P(rec), namespace=ns), optree.all_leaves([o, o], P(rec), namespace=ns)
    @op('tree_map')
    def _(o, ns, rec, s0): return optree.tree_map(F(rec), o, is_leaf=P(rec), namespace=ns)
    @op('tree_map_(rest)')
    def _(o, ns, rec, s0): return optree.tree_map_(F(rec), o, o, namespace=ns)
    @op('tree_map_with_path')
    def _(o, ns, rec, s0): return optree.tree_map_with_path(lambda p, x: F(rec)(x), o, namespace=ns)
    @op('tree_map_with_accessor')
    def _(o, ns, rec, s0): return optree.tree_map_with_accessor(lambda a, x: F(rec)(x), o, namespace=ns)
    @op('tree_reduce/sum/max/all')
    def _(o, ns, rec, s0):
        return (optree.tree_reduce(lambda a, b: (rec('f', b), a)[1], o, namespace=ns), optree.tree_all(o, is_leaf=P(rec), namespace=ns),
                optree.tree_any(o, is_leaf=P(rec), namespace=ns))
    @op('unflatten/traverse/walk')
    def _(o, ns, rec, s0):
        l, s = optree.tree_flatten(o, namespace=ns)
        return (s.unflatten(iter(l)), s.traverse(l, lambda n: (rec('f_node', None), n)[1], lambda x: (rec('f_leaf', x), x)[1]),
                s.walk(l, lambda t, d, c: (rec('f_node', None), c)[1], lambda x: (rec('f_leaf', x), x)[1]))
    @op('flatten_up_to/broadcast')
    def _(o, ns, rec, s0):
        s = optree.tree_structure(o, namespace=ns)
        return s.flatten_up_to(o), optree.tree_broadcast_prefix(o, o, namespace=ns), optree.tree_broadcast_common(o, o, namespace=ns)
    @op('tree_broadcast_map/transpose_map')
    def _(o, ns, rec, s0):
        return optree.tree_broadcast_map(F(rec), o, o, namespace=ns), optree.tree_transpose_map(lambda x: (rec('f', x), (x, x))[1], o, namespace=ns)
    @op('spec ==/hash/repr/is_prefix/compose/transform')
    def _(o, ns, rec, s0):
        a, b = s0, optree.tree_structure(o, namespace=ns)      # s0: the treespec whose hash/repr is re-checked after the failure
        return (a == b, hash(a), repr(a), str(a), {a: 1}[a], a.is_prefix(b), a.compose(b).num_leaves, a.broadcast_to_common_suffix(b),
                a.transform(lambda s: (rec('f_node', None), s)[1], lambda s: (rec('f_leaf', None), s)[1]))
    @op('prefix_errors/flatten_one_level/pickle')
    def _(o, ns, rec, s0):
        import pickle
        return optree.prefix_errors(o, o, namespace=ns), optree.tree_flatten_one_level(o, namespace=ns), pickle.loads(pickle.dumps(optree.tree_structure(o, namespace=ns)))
    @op('treespec_from_collection/dict')
    def _(o, ns, rec, s0):
        s = optree.tree_structure(o, namespace=ns)
        kids = s.children()
        return optree.treespec_from_collection(optree.tree_unflatten(s.one_level(), kids), namespace=ns) if s.one_level() is not None else None

    summary = {'runs': 0, 'faults': 0, 'by_op': {}, 'bad': []}
    for sname, mk, ns in scen():
        for oname, fn in ops:
            # dry run: how many callbacks does this operation make on this scenario?
            o = mk()
            ctx = U.Ctx()
            rec = Recorder(ctx, 0)
            dry_spec = optree.tree_structure(o, namespace=ns)       # made before the hook is armed
            U.HOOK = rec
            try:
                fn(o, ns, rec, dry_spec)
                dry_err = None
            except Exception as ex:   # noqa: BLE001
                dry_err = type(ex).__name__
            finally:
                U.HOOK = None
            K = rec.n
            summary['by_op'][f'{sname}/{oname}'] = K
            if dry_err:
                summary['bad'].append({'scenario': sname, 'op': oname, 'k': 0, 'problem': f'dry run raised {dry_err}'})
                continue
            for k in range(1, K + 1):
                o = mk()
                ctx = U.Ctx()
                rec = Recorder(ctx, k)
                spec0 = optree.tree_structure(o, namespace=ns)
                h0, r0 = hash(spec0), repr(spec0)
                fp0 = state_fingerprint()
                leaves0 = optree.tree_leaves(o, namespace=ns)
                watched = leaves0 + [o, spec0]
                gc_all()
                before = [sys.getrefcount(x) for x in watched]
                U.HOOK = rec
                res, problem = None, None
                try:
                    res = fn(o, ns, rec, spec0)
                    problem = 'no exception although callback %d raised' % k
                except Boom as ex:
                    if ex is not rec.boom:
                        problem = 'a different exception object propagated'
                    ex = None
                except Exception as ex:   # noqa: BLE001
                    problem = f'{type(ex).__name__} replaced the injected exception: {str(ex)[:100]}'
                    ex = None
                finally:
                    U.HOOK = None
                res = None
                rec.boom = None
                gc_all()
                after = [sys.getrefcount(x) for x in watched]
                summary['runs'] += 1
                summary['faults'] += 1
                if problem is None and after != before:
                    problem = f'reference counts changed by {[a - b for a, b in zip(after, before) if a != b]}'
                if problem is None and (hash(spec0) != h0 or repr(spec0) != r0 or hash(spec0) != hash(optree.tree_structure(o, namespace=ns))):
                    problem = 'hash/repr of an existing treespec changed after the failed call (stale guard)'
                if problem is None and state_fingerprint() != fp0:
                    problem = 'process-wide registry / mode state changed'
                if problem is None:
                    try:
                        if optree.tree_structure(o, namespace=ns) != spec0 or [id(x) for x in optree.tree_leaves(o, namespace=ns)] != [id(x) for x in leaves0]:
                            problem = 'the same inputs flatten differently after the failed call'
                    except Exception as ex:   # noqa: BLE001
                        problem = f'flatten after the failed call raised {type(ex).__name__}'
                if problem:
                    summary['bad'].append({'scenario': sname, 'op': oname, 'k': k, 'K': K, 'cb': rec.log[-1] if rec.log else None, 'problem': problem})
    return summary


def main():
    mode = sys.argv[1]
    if mode == 'engine':
        inp, outp = sys.argv[2], sys.argv[3]
        lines = list(open(inp))
        with open(outp, 'w') as fh:
            for res in pmap(engine_work, lines, init=U.setup_world, chunksize=8):
                for c in res:
                    fh.write(c + '\n')
    else:
        json.dump(catalogue(), open(sys.argv[2], 'w'), indent=1)


if __name__ == '__main__':
    main()
