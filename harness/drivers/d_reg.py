"""Driver for registry / dict-order histories (C12, C13): replays call histories on the real optree with fresh classes and
records, after every call, the observation vector the Registry specification predicts.

usage: python -m harness.drivers.d_reg IN.ndjson OUT.ndjson
  IN : {"tid": n, "calls": [{"op","ty","ns","pet","wae"}, ...]}
  OUT: {"tid": n, "ev": [call + {"res", "obs", "depth"}]}      (one line per history)
"""
import json, os, sys, warnings, collections, multiprocessing as mp

from harness.drivers import pmap
import optree
from optree.registry import __GLOBAL_NAMESPACE as GLOBAL

NSS = ['', 'a', 'b']
SS = os.terminal_size


def exc_name(e):
    if isinstance(e, Warning):
        return 'Warning'
    if isinstance(e, ValueError):
        return 'Value'
    if isinstance(e, TypeError):
        return 'Type'
    if isinstance(e, SystemError):
        return 'System'
    if isinstance(e, KeyError):
        return 'Key'
    return type(e).__name__


class World:
    """fresh classes per history; remembers which flatten function belongs to which registration id"""

    def __init__(self):
        class P:
            pass

        class Sub(P):
            pass
        NT = collections.namedtuple('NT', ['x'])

        class NTS(NT):
            pass
        self.types = {1: P, 2: Sub, 3: NTS, 4: SS, 5: list, 6: 42}
        self.probe = {1: P(), 2: Sub(), 3: NTS(1), 4: SS((80, 24))}
        self.gen = 0
        self.func_id = {}           # id(flatten_func) -> regid
        self.keep = []
        self.registered = []        # (cls, ns) successfully registered and not yet unregistered
        self.blocks = []            # open context managers
        self.prebuilt = None

    def ns_arg(self, ns):
        return GLOBAL if ns == 'GLOBAL' else 123 if ns == 'NONSTR' else ns

    def call(self, c):
        op = c['op']
        try:
            with warnings.catch_warnings():
                warnings.simplefilter('error' if c.get('wae') else 'ignore')
                if op == 'register':
                    rid = self.gen + 1

                    def fl(x, rid=rid):
                        return (), rid

                    def un(meta, children):
                        return None
                    pet = optree.AutoEntry if c['pet'] == 'ok' else int
                    optree.register_pytree_node(self.types[c['ty']], fl, un, path_entry_type=pet, namespace=self.ns_arg(c['ns']))
                    self.gen = rid
                    self.func_id[id(fl)] = rid
                    self.keep.append(fl)
                    self.registered.append((self.types[c['ty']], self.ns_arg(c['ns'])))
                elif op == 'unregister':
                    optree.unregister_pytree_node(self.types[c['ty']], namespace=self.ns_arg(c['ns']))
                    self.registered.remove((self.types[c['ty']], self.ns_arg(c['ns'])))
                elif op == 'enter':
                    # every other history builds all its context-manager objects BEFORE the first call (a list prepared for an
                    # ExitStack, the decorator form): what a block restores is what it found when it was ENTERED
                    cm = self.prebuilt.pop(0) if self.prebuilt is not None else optree.dict_insertion_ordered(c['pet'] == 'T', namespace=self.ns_arg(c['ns']))
                    if isinstance(cm, Exception):
                        raise cm
                    cm.__enter__()
                    self.blocks.append(cm)
                elif op == 'exit':
                    self.blocks.pop().__exit__(None, None, None)
                elif op == 'raise':
                    ex = RuntimeError('boom')
                    for _ in range(c['ty']):
                        # the with statement hands the propagating exception to every enclosing block, innermost first
                        self.blocks.pop().__exit__(RuntimeError, ex, None)
            return ''
        except Exception as ex:   # noqa: BLE001
            return exc_name(ex)

    def handler(self, spec):
        st = spec.__getstate__()[0][-1]
        kind = st[0]
        if kind == 0:
            return st[2]            # metadata = registration id
        return {1: 0, 6: -1, 10: -2}.get(kind, -9)

    def observe(self):
        look, one, get, allv = [], [], [], []
        for ns in NSS:
            table = optree.register_pytree_node.get(namespace=ns)
            for ty in (1, 2, 3, 4):
                cls, probe = self.types[ty], self.probe[ty]
                for nil in (False, True):
                    try:
                        look.append(self.handler(optree.tree_structure(probe, none_is_leaf=nil, namespace=ns)))
                    except Exception:   # noqa: BLE001
                        look.append(-99)
                    try:
                        md = optree.tree_flatten_one_level(probe, none_is_leaf=nil, namespace=ns)[1]
                        one.append(md if type(md) is int else -1 if md is self.types[3] else -2 if md is SS else -9)
                    except ValueError:
                        one.append(0)       # "Cannot flatten leaf-type"
                    except Exception:   # noqa: BLE001
                        one.append(-99)
                try:
                    h = optree.register_pytree_node.get(cls, namespace=ns)
                    if h is None:
                        get.append(0)
                    elif id(h.flatten_func) in self.func_id:
                        get.append(self.func_id[id(h.flatten_func)])
                    else:
                        get.append(-1 if h.kind == optree.PyTreeKind.NAMEDTUPLE else -2 if h.kind == optree.PyTreeKind.STRUCTSEQUENCE else -9)
                except Exception:   # noqa: BLE001
                    get.append(-99)
                h = table.get(cls)
                allv.append(self.func_id.get(id(h.flatten_func), -9) if h is not None else 0)
        # dict-order mode, observed behaviourally through several entry points
        eff, own, getdict = [], [], []
        rt = od = True
        d = {'b': 1, 'a': 2}
        dd = collections.defaultdict(int, d)
        odd = collections.OrderedDict([('b', 1), ('a', 2)])
        for ns in NSS:
            obs = [optree.tree_leaves(d, namespace=ns) == [1, 2], list(optree.tree_iter(d, namespace=ns)) == [1, 2],
                   optree.tree_flatten_with_path(dd, namespace=ns)[1] == [1, 2], optree.tree_flatten_with_accessor((d,), namespace=ns)[1] == [1, 2],
                   optree.treespec_dict({'b': optree.treespec_leaf(), 'a': optree.treespec_leaf()}, namespace=ns).entries() == ['b', 'a'],
                   optree.treespec_defaultdict(int, {'b': optree.treespec_leaf(), 'a': optree.treespec_leaf()}, namespace=ns).entries() == ['b', 'a'],
                   optree.treespec_from_collection({'b': optree.treespec_leaf(), 'a': optree.treespec_leaf()}, namespace=ns).entries() == ['b', 'a'],
                   optree.tree_flatten_one_level(d, namespace=ns)[0] == [1, 2], optree.tree_paths(dd, namespace=ns) == [('b',), ('a',)]]
            eff.append(obs)
            own.append(bool(optree._C.is_dict_insertion_ordered(ns, inherit_global_namespace=False)))
            getdict.append(optree.register_pytree_node.get(dict, namespace=ns).flatten_func.__name__ == '_dict_insertion_ordered_flatten'
                           and optree.register_pytree_node.get(collections.defaultdict, namespace=ns).flatten_func.__name__ == '_defaultdict_insertion_ordered_flatten'
                           and optree.register_pytree_node.get(namespace=ns)[dict].flatten_func.__name__ == '_dict_insertion_ordered_flatten')
            for x in (d, dd, (odd, d)):
                l, s = optree.tree_flatten(x, namespace=ns)
                y = optree.tree_unflatten(s, l)
                if list(y) != list(x) or type(y) is not type(x) or (isinstance(x, tuple) and list(y[1]) != list(x[1])):
                    rt = False
            if optree.tree_leaves(odd, namespace=ns) != [1, 2] or list(optree.tree_unflatten(*optree.tree_flatten(odd, namespace=ns)[::-1])) != ['b', 'a']:
                od = False
        return {'look': look, 'one': one, 'get': get, 'all': allv, 'eff': eff, 'own': own, 'getdict': getdict, 'rt': rt, 'od': od}

    def _ff(self, cls, ns):
        h = optree.register_pytree_node.get(cls, namespace=ns)
        return h.flatten_func if h is not None else None

    def cleanup(self):
        while self.blocks:
            try:
                self.blocks.pop().__exit__(None, None, None)
            except Exception:   # noqa: BLE001
                pass
        for cls, ns in list(self.registered):
            try:
                optree.unregister_pytree_node(cls, namespace=ns)
            except Exception:   # noqa: BLE001
                pass
        # a registration that the engine kept although the call failed would poison later histories: remove it forcibly
        for ty in (1, 2, 3, 4):
            for ns in ('a', 'b', ''):
                try:
                    optree._C.unregister_node(self.types[ty], ns)
                except Exception:   # noqa: BLE001
                    pass
                optree.registry._NODETYPE_REGISTRY.pop(self.types[ty] if ns == '' else (ns, self.types[ty]), None)


def run_history(h):
    w = World()
    ev = []
    if h.get('pre', h['tid'] % 2 == 1):
        w.prebuilt = []
        for c in h['calls']:
            if c['op'] == 'enter':
                try:
                    w.prebuilt.append(optree.dict_insertion_ordered(c['pet'] == 'T', namespace=w.ns_arg(c['ns'])))
                except Exception as ex:   # noqa: BLE001
                    w.prebuilt.append(ex)
    try:
        for c in h['calls']:
            res = w.call(c)
            e = dict(c)
            e['res'] = res
            e['obs'] = w.observe()
            e['depth'] = len(w.blocks)
            ev.append(e)
    finally:
        w.cleanup()
    return {'tid': h['tid'], 'ev': ev}


def work(line):
    return json.dumps(run_history(json.loads(line)), separators=(',', ':'))


def main():
    inp, outp = sys.argv[1], sys.argv[2]
    lines = list(open(inp))
    with open(outp, 'w') as fh:
        for res in pmap(work, lines, init=None, chunksize=8):
            fh.write(res + '\n')


if __name__ == '__main__':
    main()
