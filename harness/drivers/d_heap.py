"""Driver for C14 (immutability): replays HeapHist histories on real objects with a full re-observation of the treespec and a
snapshot comparison of every input after every step.
usage: python -m harness.drivers.d_heap IN.ndjson OUT.ndjson        IN: {"tid": n, "hist": [action, ...]}
"""
import copy, gc, json, os, pickle, sys, weakref, collections, multiprocessing as mp

from harness.drivers import pmap
import optree
from harness import vuniv as U
from harness.drivers.d_tree import proj_path, proj_acc

L = U.Leaf
NS = 'heap'


class Box(U._CustomBase):          # module level so that treespecs mentioning it can be pickled
    HASENT = True
    TREE_PATH_ENTRY_TYPE = optree.GetItemEntry


def make_world():
    return Box


def snapshot(x):
    """deep structural snapshot of a pytree of plain containers (identity of leaves, order of keys, types, maxlen, factory)"""
    if isinstance(x, dict):
        return (type(x).__name__, getattr(x, 'default_factory', None), [(k, snapshot(v)) for k, v in x.items()])
    if isinstance(x, collections.deque):
        return ('deque', x.maxlen, [snapshot(v) for v in x])
    if isinstance(x, (list, tuple)):
        return (type(x).__name__, [snapshot(v) for v in x])
    if isinstance(x, U._CustomBase):
        return (type(x).__name__, x.meta, [snapshot(v) for v in x.children], repr(x.ent))
    return ('leaf', id(x))


def observe(spec):
    n = spec.num_leaves
    rebuilt = spec.unflatten(range(n)) if True else None
    return {
        'state': repr(spec.__getstate__()), 'repr': repr(spec), 'hash': hash(spec), 'n': (spec.num_leaves, spec.num_nodes, spec.num_children),
        'paths': repr(spec.paths()), 'accessors': repr(spec.accessors()), 'entries': repr(spec.entries()),
        'children': repr(spec.children()), 'one_level': repr(spec.one_level()), 'kind': int(spec.kind), 'type': repr(spec.type),
        'unflatten': repr(snapshot_values(rebuilt)),
    }


def snapshot_values(x):
    if isinstance(x, dict):
        return (type(x).__name__, [(k, snapshot_values(v)) for k, v in x.items()])
    if isinstance(x, collections.deque):
        return ('deque', x.maxlen, [snapshot_values(v) for v in x])
    if isinstance(x, (list, tuple)):
        return (type(x).__name__, [snapshot_values(v) for v in x])
    if isinstance(x, U._CustomBase):
        return (type(x).__name__, x.meta, [snapshot_values(v) for v in x.children])
    return x


def run_history(h):
    Box = make_world()
    optree.register_pytree_node_class(Box, namespace=NS)
    registered = True
    registered_same = True          # the registration the treespec was made with is still the current one
    steps = []
    try:
        leaves0 = [L(i) for i in range(1, 9)]
        box = Box([leaves0[5], leaves0[6]], 7, [[1, 6], [1, 7]])      # two plain leaves: a reversed reading is structurally acceptable
        tree = {'b': [leaves0[0], collections.deque([leaves0[1]], maxlen=3)], 'a': collections.defaultdict(list, {'y': leaves0[2], 'x': leaves0[3]}),
                'c': U.NT2(leaves0[4], None), 'd': box, 'e': collections.OrderedDict([('q', leaves0[7]), ('p', ())])}
        flat_leaves, spec = optree.tree_flatten(tree, namespace=NS)
        obs0 = observe(spec)
        leaf_refs = [weakref.ref(x) for x in leaves0]
        # partner treespecs for operand uses
        same = optree.tree_structure(copy.deepcopy(tree), namespace=NS)
        suffix_tree = copy.deepcopy(tree)
        suffix_tree['b'][0] = (1, 2)
        conflicting = {'b': [1, 2, 3], 'a': 1, 'c': 1, 'd': 1, 'e': 1}
        other_keys = collections.OrderedDict([('zz', (1, 2)), ('yy', 3), ('b', 1), ('a', 1), ('c', 1)])     # key mismatch, OrderedDict operand
        # a key mismatch located AT the OrderedDict node whose stored keys ('q', 'p') are not in sorted order
        mismatch_e = copy.deepcopy(suffix_tree)
        mismatch_e['e'] = collections.OrderedDict([('q', 1), ('zz', 2)])
        expected_fut = [id(x) for x in spec.flatten_up_to(suffix_tree)]
        partner_ok = optree.tree_structure(suffix_tree, namespace=NS)
        partner_conf = optree.tree_structure(conflicting, namespace=NS)
        partner_keys = optree.tree_structure(other_keys, namespace=NS)
        partner_obs = {id(p): observe(p) for p in (same, partner_ok, partner_conf, partner_keys)}
        partners = {id(p): p for p in (same, partner_ok, partner_conf, partner_keys)}
        tree_alive = True
        for a in h['hist']:
            inputs_before = snapshot(tree) if tree_alive else None
            own_reg_ok = True
            flat_before = [id(x) for x in flat_leaves] if flat_leaves is not None else None
            err = ''
            try:
                if a.startswith('mutate_'):
                    what = a[len('mutate_'):]
                    if what == 'source':
                        tree['b'].append(L(50)); tree['b'][1].append(L(51)); tree['a']['w'] = L(52); tree['a'].pop('y', None)
                        tree['e'].move_to_end('q'); box.children.append(L(53)); box.ent.append([1, 8]); tree['zz'] = 1
                        inputs_before = snapshot(tree)
                    else:
                        got = {'paths': spec.paths, 'accessors': spec.accessors, 'entries': spec.entries, 'children': spec.children,
                               'child': lambda: [spec.child(0)], 'one_level': lambda: spec.one_level().entries(),
                               'leaves': lambda: flat_leaves if flat_leaves is not None else [],
                               # __getstate__ is the pickle protocol, not one of the inspection methods the property lists: it is exercised
                               # (must not crash) but the lists inside the state are left alone
                               'getstate': lambda: [list(x) for x in _mutable_parts(spec.__getstate__())]}[what]()
                        fresh = {'paths': spec.paths, 'accessors': spec.accessors, 'entries': spec.entries, 'children': spec.children}.get(what)
                        if fresh is not None and fresh() is got:
                            err = 'hand-out returns the same list object twice'
                        for lst in (got if what == 'getstate' else [got]):
                            if isinstance(lst, list):
                                lst.reverse(); lst.append('junk'); del lst[:1]
                        if what == 'leaves':
                            flat_before = [id(x) for x in flat_leaves] if flat_leaves is not None else None
                elif a.startswith('use_'):
                    what = a[len('use_'):]
                    if what == 'eq':
                        _ = (spec == same, spec != partner_ok, spec == 3, hash(spec))
                    elif what == 'is_prefix':
                        _ = (spec.is_prefix(partner_ok), partner_ok.is_suffix(spec), spec <= partner_conf, partner_keys >= spec)
                    elif what == 'compose':
                        _ = (spec.compose(same), same.compose(spec))
                    elif what == 'transform':
                        _ = spec.transform(lambda s: s, lambda s: s)
                    elif what == 'broadcast_ok':
                        _ = (spec.broadcast_to_common_suffix(partner_ok), partner_ok.broadcast_to_common_suffix(spec))
                    elif what == 'broadcast_fail':
                        for x, y in ((spec, partner_conf), (partner_conf, spec), (spec, partner_keys), (partner_keys, spec)):
                            try:
                                x.broadcast_to_common_suffix(y)
                            except ValueError:
                                pass
                    elif what == 'flatten_up_to_ok':
                        try:
                            got_fut = [id(x) for x in spec.flatten_up_to(suffix_tree)]
                            # a treespec keeps the registration it was made with: if it accepts the tree at all, it reads it
                            # with its own flatten function, not with whatever is registered for the class now
                            own_reg_ok = got_fut == expected_fut
                        except ValueError:
                            if registered_same:      # the tree's custom node is classified by the CURRENT registry
                                raise
                    elif what == 'flatten_up_to_fail':
                        for t in (conflicting, other_keys, 3, mismatch_e):
                            try:
                                spec.flatten_up_to(t)
                            except ValueError:
                                pass
                    elif what == 'constructor':
                        _ = (optree.treespec_tuple([spec, same], namespace=NS), optree.treespec_dict({'k': spec}, namespace=NS),
                             optree.treespec_from_collection([spec, partner_ok], namespace=NS))
                    elif what == 'unflatten':
                        _ = spec.unflatten(list(range(spec.num_leaves)))
                    elif what == 'pickle':
                        if registered_same:
                            _ = pickle.loads(pickle.dumps(spec))
                    elif what == 'walk_readonly':
                        _ = spec.walk(list(range(spec.num_leaves)), lambda t, d, c: c, lambda x: x)
                elif a == 'unregister':
                    optree.unregister_pytree_node(Box, namespace=NS)
                    registered = False
                    registered_same = False
                elif a == 'reregister':
                    # a DIFFERENT registration of the same class: children in reverse order, rebuilt reversed
                    optree.register_pytree_node(Box, lambda b: (tuple(reversed(b.children)), U.mk_meta(b.meta), tuple(reversed([U.mk_key(e) for e in b.ent]))),
                                                lambda m, ch: Box(list(reversed(ch)), U.proj_meta(m), [[1, 6], [1, 7]][:len(ch)]),
                                                path_entry_type=optree.GetItemEntry, namespace=NS)
                    registered = True
                elif a == 'delete_tree':
                    tree = box = flat_leaves = leaves0 = None
                    tree_alive = False
                elif a == 'gc':
                    gc.collect()
            except Exception as ex:   # noqa: BLE001
                err = f'{type(ex).__name__}: {str(ex)[:120]}'
            _ = got = lst = fresh = None
            obs = observe(spec)
            changed = [k for k in obs0 if obs[k] != obs0[k]]
            partner_changed = [k for p in partners.values() for k in partner_obs[id(p)] if observe(p)[k] != partner_obs[id(p)][k]]
            step = {'a': a, 'err': err, 'own_reg_ok': own_reg_ok, 'spec_changed': changed, 'operand_changed': sorted(set(partner_changed)),
                    'inputs_mutated': tree_alive and inputs_before is not None and snapshot(tree) != inputs_before,
                    'leaf_list_mutated': flat_leaves is not None and flat_before is not None and [id(x) for x in flat_leaves] != flat_before}
            if not tree_alive:
                gc.collect()
                step['leaves_retained'] = sum(1 for r in leaf_refs if r() is not None)
            steps.append(step)
    finally:
        if registered:
            try:
                optree.unregister_pytree_node(Box, namespace=NS)
            except Exception:   # noqa: BLE001
                pass
    return {'op': 'heap', 'tid': h['tid'], 'hist': h['hist'], 'steps': steps}


def _mutable_parts(state):
    out = []
    for node in state[0]:
        for part in node:
            if isinstance(part, list):
                out.append(part)
            elif isinstance(part, tuple):
                out += [p for p in part if isinstance(p, list)]
    return out


def cycles_and_refcounts():
    """treespecs in reference cycles through their metadata are collected; registration functions are not leaked"""
    res = {}

    class Holder:
        pass

    class Cyc(U._CustomBase):
        def tree_flatten(self):
            return tuple(self.children), self.meta
    optree.register_pytree_node_class(Cyc, namespace=NS)
    try:
        dead = 0
        for arity in (0, 1, 2):
            h = Holder()
            spec = optree.tree_structure(Cyc([L(1)] * arity, h), namespace=NS)
            h.spec = spec                      # metadata -> treespec -> metadata
            r = weakref.ref(h)
            del h, spec
            gc.collect()
            dead += r() is None
        res['metadata_cycles_collected'] = dead
        # default_factory / dict key cycles
        d = collections.defaultdict(Holder)
        hk = Holder()
        spec = optree.tree_structure({'k': d})
        hk.s = spec
        fac = Holder()
        d.default_factory = lambda: fac
        fac.s = optree.tree_structure(d)
        r2 = weakref.ref(fac)
        del fac, d, spec, hk
        gc.collect()
        res['factory_cycle_collected'] = r2() is None
        fl = Cyc.tree_flatten
        gc.collect()
        before = sys.getrefcount(Cyc)
        for _ in range(200):
            s = optree.tree_structure([Cyc([L(1)], 1)], namespace=NS)
            s.paths(), s.children(), s.accessors(), repr(s), hash(s)
            del s
        gc.collect()
        res['class_refcount_delta'] = sys.getrefcount(Cyc) - before
    finally:
        optree.unregister_pytree_node(Cyc, namespace=NS)
    # a treespec keeps working after its custom type is unregistered and every user reference to the registration's pieces is gone
    def scoped():
        class MyEntry(optree.PyTreeEntry):
            def __call__(self, obj):
                return obj.children[self.entry]

        class Keep(U._CustomBase):
            pass
        fl = lambda x: (tuple(x.children), 'md')                 # noqa: E731
        un = lambda m, c: Keep(list(c), 0)                         # noqa: E731
        optree.register_pytree_node(Keep, fl, un, path_entry_type=MyEntry, namespace=NS)
        obj = Keep([L(1), (L(2), L(3))], 0)
        spec = optree.tree_structure(obj, namespace=NS)
        before = (repr(spec), repr(spec.paths()), [type(e).__name__ for a in spec.accessors() for e in a], spec.num_leaves)
        refs = [weakref.ref(MyEntry), weakref.ref(fl), weakref.ref(un), weakref.ref(Keep)]
        optree.unregister_pytree_node(Keep, namespace=NS)
        return spec, before, refs, obj
    spec, before, refs, obj = scoped()
    gc.collect()
    gc.collect()
    res['registration_alive_while_spec_lives'] = all(r() is not None for r in refs)
    try:
        accs = spec.accessors()
        after = (repr(spec), repr(spec.paths()), [type(e).__name__ for a in accs for e in a], spec.num_leaves)
        rebuilt = spec.unflatten([10, 20, 30])
        res['spec_works_after_unregister_and_gc'] = after == before and type(rebuilt).__name__ == 'Keep' and accs[0](obj) is obj.children[0]
    except Exception as ex:   # noqa: BLE001
        res['spec_works_after_unregister_and_gc'] = False
    del spec, accs, rebuilt, obj
    gc.collect()
    res['registration_released_with_spec'] = all(r() is None for r in refs[:3])
    return {'op': 'heap-gc', **res}


def work(line):
    return json.dumps(run_history(json.loads(line)))


def main():
    inp, outp = sys.argv[1], sys.argv[2]
    lines = list(open(inp))
    with open(outp, 'w') as fh:
        for res in pmap(work, lines, init=None, chunksize=16):
            fh.write(res + '\n')
        fh.write(json.dumps(cycles_and_refcounts()) + '\n')


if __name__ == '__main__':
    main()
