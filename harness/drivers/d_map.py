"""Driver for the tree_map family and PyTreeSpec.traverse / walk (C05).

IN: {"a": tree, "rests": [tree, ...], "cfgs": [...]}
"""
import json, os, sys, multiprocessing as mp

from harness.drivers import pmap
import optree
from harness import vuniv as U
from harness.drivers.d_tree import proj_path, proj_acc


def run_map(a, rests, cfg):
    ctx = U.Ctx()
    oa = U.realise(a, ctx)
    orests = [U.realise(r, ctx) for r in rests]
    kw = dict(none_is_leaf=cfg['nil'], namespace=cfg['ns'])
    pred = U.make_pred(cfg, ctx)
    case = {'op': 'map', 'a': a, 'rests': rests, 'cfg': cfg, 'variants': []}
    results = {}

    def mk_f(log, extra):
        def f(*args):
            rec = {}
            args = list(args)
            if extra == 'path':
                rec['path'] = proj_path(args.pop(0))
            elif extra == 'acc':
                rec['acc'] = proj_acc(args.pop(0))
            rec['x'] = ctx.id_of(args[0])
            rec['rests'] = [U.project(r, ctx) for r in args[1:]]
            out = ctx.new_leaves(1)[0]
            rec['out'] = ctx.id_of(out)
            log.append(rec)
            return out
        return f
    with U.modes(cfg['modes']):
        try:
            spec = optree.tree_structure(oa, pred, **kw)
            case['sa'] = U.project_spec(spec)
        except Exception as ex:   # noqa: BLE001
            case['sa_err'] = U.exc_class(ex)
            return case
        for name, fn, extra, inplace in (
                ('tree_map', optree.tree_map, None, False), ('tree_map_', optree.tree_map_, None, True),
                ('tree_map_with_path', optree.tree_map_with_path, 'path', False), ('tree_map_with_path_', optree.tree_map_with_path_, 'path', True),
                ('tree_map_with_accessor', optree.tree_map_with_accessor, 'acc', False),
                ('tree_map_with_accessor_', optree.tree_map_with_accessor_, 'acc', True)):
            log = []
            v = {'name': name, 'extra': extra or '', 'inplace': inplace}
            try:
                res = fn(mk_f(log, extra), oa, *orests, is_leaf=pred, **kw)
                v['err'] = ''
                v['same_object'] = res is oa
                v['tree'] = U.project(res, ctx)
            except Exception as ex:   # noqa: BLE001
                v['err'] = U.exc_class(ex)
            v['calls'] = log
            case['variants'].append(v)
        # identity map: new containers, same leaves
        try:
            res = optree.tree_map(lambda x: x, oa, is_leaf=pred, **kw)
            case['identity'] = {'err': '', 'tree': U.project(res, ctx)}
        except Exception as ex:   # noqa: BLE001
            case['identity'] = {'err': U.exc_class(ex)}
        # functor law with leaf-valued g (deterministic tables so that both sides produce the same objects)
        gt, ft = {}, {}

        def g(x):
            if id(x) not in gt:
                gt[id(x)] = ctx.new_leaves(1)[0]
            return gt[id(x)]

        def f(x):
            if id(x) not in ft:
                ft[id(x)] = ctx.new_leaves(1)[0]
            return ft[id(x)]
        try:
            lhs = optree.tree_map(lambda x: f(g(x)), oa, is_leaf=pred, **kw)
            rhs = optree.tree_map(f, optree.tree_map(g, oa, is_leaf=pred, **kw), **kw)
            case['functor'] = {'err': '', 'lhs': U.project(lhs, ctx), 'rhs': U.project(rhs, ctx)}
        except Exception as ex:   # noqa: BLE001
            case['functor'] = {'err': U.exc_class(ex)}
        # traverse / walk over the treespec
        leaves = optree.tree_leaves(oa, pred, **kw)
        for name, meth in (('traverse', spec.traverse), ('walk', spec.walk)):
            log = []

            def f_leaf(x):
                log.append({'k': 'leaf', 'x': ctx.id_of(x)})
                return x
            if name == 'traverse':
                def f_node(node):
                    log.append({'k': 'node', 'node': U.project(node, ctx)})
                    return node
            else:
                def f_node(ty, data, children):
                    from harness.drivers.d_tree import type_tag
                    # project the raw node data the way project_spec does
                    if isinstance(data, list):
                        pd = {'keys': [U.proj_key(k) for k in data], 'm': 0}
                    elif isinstance(data, tuple) and len(data) == 2 and isinstance(data[1], list) and ty is U.defaultdict:
                        pd = {'keys': [U.proj_key(k) for k in data[1]], 'm': U.FACTORY_ID[data[0]]}
                    elif ty is U.deque:
                        pd = {'keys': [], 'm': 0 if data is None else data + 1}
                    elif isinstance(data, type):
                        pd = {'keys': [], 'm': U.CLS_ID.get(data, -7)}
                    elif isinstance(data, tuple) and data and data[0] == 'meta':
                        pd = {'keys': [], 'm': data[1]}
                    else:
                        pd = {'keys': [], 'm': 0 if data is None else -7}
                    log.append({'k': 'node', 'arity': len(children), 'ty': 100 if ty is type(None) else type_tag(ty), 'data': pd,
                                'children_is_tuple': type(children) is tuple})
                    return tuple(children)
            try:
                res = meth(iter(leaves), f_node, f_leaf)
                case[name] = {'err': '', 'log': log, 'tree': U.project(res, ctx)}
            except Exception as ex:   # noqa: BLE001
                case[name] = {'err': U.exc_class(ex), 'log': log}
    return case


def work(line):
    item = json.loads(line)
    return [json.dumps(run_map(item['a'], item['rests'], cfg), separators=(',', ':')) for cfg in item['cfgs']]


def main():
    inp, outp = sys.argv[1], sys.argv[2]
    lines = list(open(inp))
    with open(outp, 'w') as fh:
        for res in pmap(work, lines, init=U.setup_world, chunksize=16):
            for c in res:
                fh.write(c + '\n')


if __name__ == '__main__':
    main()
