"""Driver for the lazy-iterator machine (spec/IterSem.tla): replays programs - create an iterator, __next__, mutate the
containers it is suspended in, enter / leave dict_insertion_ordered blocks, (un)register the custom class, eager tree_leaves -
on the real optree and records what every call returned, as model object ids.

usage: python -m harness.drivers.d_iter IN.ndjson OUT.ndjson
  IN : {"shape": s, "calls": [{"op","i","nil","ns","pk","pi","c","e","b"}, ...]}
  OUT: {"op": "itertrace", "shape": s, "calls": [call + {"res": [...]}]}     (one line per program, same order)
Results: next -> [id] | [-1] StopIteration | [-2] the predicate's exception; leaves -> [ids] | [-2]; [-4] call not applicable
(IndexError / KeyError of the mutation itself, ValueError of register / unregister); [-3, ...] anything the specification has no
word for (another exception, an unknown object).
"""
import collections, contextlib, json, os, sys

import optree
from optree.registry import __GLOBAL_NAMESPACE as GLOBAL

assert os.path.realpath(optree.__file__).startswith(os.path.realpath(os.environ['VERIF_BUILD_DIR'])), optree.__file__


class Leaf:
    __slots__ = ('mid',)

    def __init__(self, mid):
        self.mid = mid


class IterNode:
    def __init__(self, items):
        self.items = list(items)


class Boom(Exception):
    pass


def flat_fwd(n):
    return tuple(n.items), None, None


def flat_rev(n):
    return tuple(reversed(n.items)), None, None


def unflat(_, ch):
    return IterNode(ch)


SHAPES = {
    1: [('list', [2, 3, 4, 10], []), ('list', [11, 12], []), ('dict', [13, 14], [2, 1]), ('custom', [15, 16], [])],
    2: [('tuple', [2, 0, 3], []), ('custom', [11, 4], []), ('odict', [14, 4], [2, 1]), ('deque', [12, 13], [])],
    3: [('ddict', [2, 3], [3, 1]), ('list', [0, 11, 4], []), ('dict', [2, 12], [2, 1]), ('deque', [15], [])],
}


def new_key(n):
    return -(n + 1) if n % 2 == 0 else 100 + n


class World:
    def __init__(self, shape):
        self.obj = {0: None}
        self.mid = {id(None): 0}
        self.nfresh = 0
        self.its = []
        self.stack = contextlib.ExitStack()
        self.blocks = []
        self.reg = set()
        spec = SHAPES[shape]
        # leaves first, then containers bottom-up (a container may refer to a higher-numbered one: build in dependency order)
        for mid in range(10, 17):
            self.add(mid, Leaf(mid))
        pending = {i + 1: s for i, s in enumerate(spec)}
        while pending:
            for cid, (k, ch, keys) in sorted(pending.items()):
                if all(c in self.obj for c in ch):
                    kids = [self.obj[c] for c in ch]
                    o = {'list': lambda: list(kids), 'tuple': lambda: tuple(kids), 'deque': lambda: collections.deque(kids),
                         'dict': lambda: dict(zip(keys, kids)), 'odict': lambda: collections.OrderedDict(zip(keys, kids)),
                         'ddict': lambda: collections.defaultdict(int, zip(keys, kids)), 'custom': lambda: IterNode(kids)}[k]()
                    self.add(cid, o)
                    self.kind = getattr(self, 'kind', {})
                    self.kind[cid] = k
                    del pending[cid]
                    break
            else:
                raise AssertionError('cyclic shape')
        self.set_reg('', True)

    def add(self, mid, o):
        self.obj[mid] = o
        self.mid[id(o)] = mid

    def ids(self, objs):
        out = []
        for o in objs:
            m = self.mid.get(id(o))
            if m is None or self.obj.get(m) is not o:
                return [-3, -3]
            out.append(m)
        return out

    def pred(self, c):
        pk, pi = c['pk'], c['pi']
        if pk == 'none':
            return None
        target = self.obj[pi]
        if pk == 'leafat':
            return lambda x: x is target

        def raising(x):
            if x is target:
                raise Boom()
            return False
        return raising

    def set_reg(self, ns, on):
        if on:
            optree.register_pytree_node(IterNode, flat_fwd if ns == '' else flat_rev, unflat, namespace=GLOBAL if ns == '' else ns)
            self.reg.add(ns)
        else:
            optree.unregister_pytree_node(IterNode, namespace=GLOBAL if ns == '' else ns)
            self.reg.discard(ns)

    def fresh(self):
        n = self.nfresh
        self.nfresh += 1
        leaf = Leaf(20 + n)
        self.add(20 + n, leaf)
        return n, leaf

    def mutate(self, cid, e):
        k = self.kind.get(cid)
        if k is None or k == 'tuple':
            return [-4]
        o = self.obj[cid]
        seq = o.items if k == 'custom' else o
        isdict = k in ('dict', 'odict', 'ddict')
        if e in ('popfirst', 'poplast', 'setfirst') and len(seq) == 0:
            return [-4]
        if e == 'alias' and cid != 1:
            return [-4]
        if e in ('append', 'alias'):
            n, leaf = self.fresh()
            val = leaf if e == 'append' else self.obj[2]
            if isdict:
                seq[new_key(n)] = val
            else:
                seq.append(val)
        elif e == 'popfirst':
            if isdict:
                del seq[next(iter(seq))]
            elif k == 'deque':
                seq.popleft()
            else:
                seq.pop(0)
        elif e == 'poplast':
            if isdict:
                seq.popitem()
            else:
                seq.pop()
        elif e == 'clear':
            seq.clear()
        elif e == 'setfirst':
            n, leaf = self.fresh()
            if isdict:
                seq[next(iter(seq))] = leaf
            else:
                seq[0] = leaf
        else:
            return [-3, -3]
        return []

    def call(self, c):
        op = c['op']
        try:
            if op == 'create':
                self.its.append(optree.tree_iter(self.obj[1], self.pred(c), none_is_leaf=c['nil'], namespace=c['ns']))
                return []
            if op == 'next':
                if not 1 <= c['i'] <= len(self.its):
                    return [-4]
                try:
                    return self.ids([next(self.its[c['i'] - 1])])
                except StopIteration:
                    return [-1]
                except Boom:
                    return [-2]
            if op == 'leaves':
                try:
                    return self.ids(optree.tree_leaves(self.obj[1], self.pred(c), none_is_leaf=c['nil'], namespace=c['ns']))
                except Boom:
                    return [-2]
            if op == 'mutate':
                return self.mutate(c['c'], c['e'])
            if op == 'enter':
                cm = optree.dict_insertion_ordered(c['b'], namespace=GLOBAL if c['ns'] == '' else c['ns'])
                cm.__enter__()
                self.blocks.append(cm)
                return []
            if op == 'exit':
                if not self.blocks:
                    return [-4]
                self.blocks.pop().__exit__(None, None, None)
                return []
            if op == 'reg':
                if (c['ns'] in self.reg) == c['b']:
                    # the specification says the call fails and changes nothing: make the real call and see
                    try:
                        self.set_reg(c['ns'], c['b'])
                    except ValueError:
                        return [-4]
                    return [-3, -4]
                self.set_reg(c['ns'], c['b'])
                return []
            return [-3, -3]
        except Exception as e:  # noqa: BLE001
            return [-3, -5, len(type(e).__name__)]

    def close(self):
        self.its.clear()
        while self.blocks:
            self.blocks.pop().__exit__(None, None, None)
        for ns in list(self.reg):
            self.set_reg(ns, False)


def main():
    inp, outp = sys.argv[1], sys.argv[2]
    with open(inp) as fi, open(outp, 'w') as fo:
        for line in fi:
            item = json.loads(line)
            w = World(item['shape'])
            try:
                calls = []
                for c in item['calls']:
                    c = {k: c[k] for k in ('op', 'i', 'nil', 'ns', 'pk', 'pi', 'c', 'e', 'b')}
                    c['res'] = w.call(c)
                    calls.append(c)
            finally:
                w.close()
            fo.write(json.dumps({'op': 'itertrace', 'shape': item['shape'], 'calls': calls}) + '\n')


if __name__ == '__main__':
    main()
