"""Driver for tree_transpose / tree_transpose_map* (C10).   IN: {"a": outer tree, "b": inner tree, "cfgs": [...]}"""
import json, os, sys, multiprocessing as mp

from harness.drivers import pmap
import optree
from harness import vuniv as U
from harness.drivers.d_tree import proj_path, proj_acc


def g(fn):
    try:
        return {'err': '', 'v': fn()}
    except Exception as ex:   # noqa: BLE001
        return {'err': U.exc_class(ex), 'msg': str(ex)[:160]}


def run(a, b, cfg):
    ctx = U.Ctx()
    oa, ob = U.realise(a, ctx), U.realise(b, ctx)
    kw = dict(none_is_leaf=cfg['nil'], namespace=cfg['ns'])
    case = {'op': 'transpose', 'a': a, 'b': b, 'cfg': cfg}
    with U.modes(cfg['modes']):
        so, si = optree.tree_structure(oa, **kw), optree.tree_structure(ob, **kw)
        case['so'], case['si'] = U.project_spec(so), U.project_spec(si)
        m, n = so.num_leaves, si.num_leaves
        fresh = ctx.new_leaves(m * n)
        rows = [si.unflatten(fresh[i * n:(i + 1) * n]) for i in range(m)]
        t = so.unflatten(rows)                      # outer-of-inner
        case['in_leaves'] = U.leaf_ids(fresh, ctx)

        def flat(x):
            l, s = optree.tree_flatten(x, **kw)
            return {'leaves': U.leaf_ids(l, ctx), 'spec': U.project_spec(s)}
        r = g(lambda: optree.tree_transpose(so, si, t))
        if r['err'] == '':
            res = r['v']
            r['v'] = flat(res)
            back = g(lambda: optree.tree_transpose(si, so, res))
            if back['err'] == '':
                back['v'] = flat(back['v'])
                back['same_as_input'] = U.project(optree.tree_transpose(si, so, res), ctx) == U.project(t, ctx)
            case['back'] = back
        case['fwd'] = r
        # error cases
        errs = {}
        if m * n > 0:
            errs['too_many'] = g(lambda: optree.tree_transpose(so, si, so.unflatten([si.unflatten(fresh[:n])] * (m - 1) + [(si.unflatten(fresh[:n]), fresh[0])])))['err']
            errs['too_few'] = g(lambda: optree.tree_transpose(so, si, so.unflatten(fresh[:m])))['err'] if n > 1 else 'Type'
        other_nil = optree.tree_structure(ob, none_is_leaf=not cfg['nil'], namespace=cfg['ns'])
        errs['nil_mismatch'] = g(lambda: optree.tree_transpose(so, other_nil, t))['err']
        case['errs'] = errs
        # transpose_map: f returns an inner-shaped tree per leaf; with_path / with_accessor variants
        for name, fn, extra in (('tree_transpose_map', optree.tree_transpose_map, None),
                                ('tree_transpose_map_with_path', optree.tree_transpose_map_with_path, 'path'),
                                ('tree_transpose_map_with_accessor', optree.tree_transpose_map_with_accessor, 'acc')):
            log = []

            def f(*args, extra=extra, log=log):
                args = list(args)
                rec = {}
                if extra == 'path':
                    rec['path'] = proj_path(args.pop(0))
                elif extra == 'acc':
                    rec['acc'] = proj_acc(args.pop(0))
                rec['x'] = ctx.id_of(args[0])
                outs = ctx.new_leaves(n)
                rec['outs'] = U.leaf_ids(outs, ctx)
                log.append(rec)
                return si.unflatten(outs)
            for given in (False, True):
                log.clear()
                r = g(lambda: fn(f, oa, inner_treespec=si if given else None, **kw))
                if r['err'] == '':
                    r['v'] = flat(r['v'])
                r['calls'] = list(log)
                case[name + ('_given' if given else '')] = r
        # a function whose results do not all match the inner structure of the first result must be rejected
        cnt = [0]

        def varying(x):
            cnt[0] += 1
            return si.unflatten(ctx.new_leaves(n)) if cnt[0] == 1 else ctx.new_leaves(1)[0]    # an opaque leaf never matches a non-leaf structure
        case['varying'] = g(lambda: optree.tree_transpose_map(varying, oa, **kw))['err'] if m > 1 else 'Value'
    return case


def work(line):
    item = json.loads(line)
    return [json.dumps(run(item['a'], item['b'], cfg), separators=(',', ':')) for cfg in item['cfgs']]


def main():
    inp, outp = sys.argv[1], sys.argv[2]
    lines = list(open(inp))
    with open(outp, 'w') as fh:
        for res in pmap(work, lines, init=U.setup_world, chunksize=16):
            for c in res:
                fh.write(c + '\n')


if __name__ == '__main__':
    main()
