"""Drivers: run under /venv/bin/python against the freshly built optree."""
import concurrent.futures, os, sys
from concurrent.futures.process import BrokenProcessPool

WORKER_DIED = 98        # exit code: a worker process of the driver died abruptly (segfault / abort inside the engine)


def pmap(work, items, init=None, chunksize=16, procs=None):
    """ordered parallel map over worker processes.  Unlike multiprocessing.Pool, which waits for ever when a worker is killed
    by a signal, this notices the death and ends the driver with WORKER_DIED, which the runner reports as a crash of the engine"""
    procs = procs or int(os.environ.get('VERIF_PROCS', '16'))
    ex = concurrent.futures.ProcessPoolExecutor(procs, initializer=init)
    try:
        for res in ex.map(work, items, chunksize=chunksize):
            yield res
    except BrokenProcessPool:
        sys.stderr.write('driver: a worker process died abruptly (crash inside the engine under test)\n')
        sys.stderr.flush()
        os._exit(WORKER_DIED)
    finally:
        ex.shutdown(wait=False, cancel_futures=True)
