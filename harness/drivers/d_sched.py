"""Cooperative-scheduler driver (C17): replays TLC schedules of Threads.tla on real threads.  Every callback the engine makes
parks its thread on a semaphore; the controller releases exactly the thread the schedule names, so the real interleaving at
callback granularity IS the model behaviour.  A progress file lets the parent process detect a hang (deadlock).

usage: python -m harness.drivers.d_sched replay IN.ndjson OUT.ndjson PROGRESS START
       python -m harness.drivers.d_sched stress OUT.json SECONDS
"""
import json, os, queue, sys, threading, time, collections, pickle

import optree
from harness import vuniv as U

L = U.Leaf


class Sched:
    def __init__(self, n):
        self.go = [threading.Semaphore(0) for _ in range(n)]
        self.arrived = queue.Queue()
        self.tls = threading.local()

    def point(self, label):
        tid = getattr(self.tls, 'tid', None)
        if tid is None:          # a callback on a thread the scheduler does not control (never parks)
            return
        self.arrived.put((tid, label))
        self.go[tid].acquire()


def make_ops(sched, ops):
    """fresh classes and one callable per thread"""
    class Meta(type):
        @property
        def _fields(cls):
            sched.point('attr-hook')          # runs inside register_pytree_node, i.e. while the engine classifies the class
            raise AttributeError('_fields')

    class Hooked(tuple, metaclass=Meta):
        pass

    class Z:
        pass
    shared = {}
    it_items = [L(i) for i in range(1, 4)]
    shared['iter'] = optree.tree_iter(it_items, lambda x: (sched.point('is_leaf'), False)[1])
    shared['zobj'] = Z()
    # a treespec shared by the threads whose hash / repr run user code (key __hash__, metadata __repr__)
    hk = {U.KHook(1): 1, U.KHook(2): (2, 3)}
    shared['hspec'] = optree.tree_structure(hk)
    shared['hash_alone'] = hash(shared['hspec'])
    shared['repr_alone'] = repr(shared['hspec'])
    results = [None] * len(ops)

    def pred(x):
        sched.point('is_leaf')
        return False

    def body(i, op):
        def run():
            sched.tls.tid = i
            sched.point('start')
            try:
                if op == 'flatten':
                    leaves, spec = optree.tree_flatten([shared['zobj']], pred, namespace='thr')
                    results[i] = {'ok': True, 'custom': spec.num_nodes == 2 and int(spec.child(0).kind) == 0, 'nleaves': len(leaves)}
                elif op == 'reg_hook':
                    optree.register_pytree_node(Hooked, lambda x: ((), None), lambda m, c: Hooked(), namespace='thr')
                    results[i] = {'ok': True}
                elif op == 'reg':
                    optree.register_pytree_node(Z, lambda x: ((), None), lambda m, c: shared['zobj'], namespace='thr')
                    results[i] = {'ok': True}
                elif op == 'unreg':
                    optree.unregister_pytree_node(Z, namespace='thr')
                    results[i] = {'ok': True}
                elif op == 'hash':
                    h = hash(shared['hspec'])
                    r = repr(shared['hspec'])
                    results[i] = {'ok': True, 'same_as_alone': h == shared['hash_alone'] and r == shared['repr_alone']}
                elif op == 'next':
                    got = []
                    for _ in range(3):
                        try:
                            got.append(next(shared['iter']).n)
                        except StopIteration:
                            pass
                    results[i] = {'ok': True, 'got': got}
            except Exception as ex:   # noqa: BLE001
                results[i] = {'ok': False, 'err': type(ex).__name__}
            finally:
                sched.arrived.put((i, 'end'))
        return run

    def cleanup():
        for cls in (Hooked, Z):
            try:
                optree.unregister_pytree_node(cls, namespace='thr')
            except Exception:   # noqa: BLE001
                pass
    return [body(i, op) for i, op in enumerate(ops)], results, cleanup


def replay(case):
    ops, releases = case['ops'], case['releases']
    pre = case.get('pre', [])
    sched = Sched(len(ops))
    bodies, results, cleanup = make_ops(sched, ops)
    U.HOOK = lambda kind, arg: sched.point(kind) if kind in ('key_hash',) else None
    threads = [threading.Thread(target=b, daemon=True) for b in bodies]
    for t in threads:
        t.start()
    parked, ended = set(), set()

    def drain(timeout):
        try:
            tid, label = sched.arrived.get(timeout=timeout)
        except queue.Empty:
            return False
        if label == 'end':
            ended.add(tid)
            parked.discard(tid)
        else:
            parked.add(tid)
        return True
    while len(parked) < len(ops):
        drain(5)
    order = []
    for t in releases:
        if t in parked:
            parked.discard(t)
            order.append(t)
            sched.go[t].release()
            # the released thread runs to its next callback, to its end, or blocks on a lock held by a parked thread
            drain(0.25)
            while drain(0.0):
                pass
    deadline = time.time() + 20
    while len(ended) < len(ops) and time.time() < deadline:
        for t in sorted(parked):
            parked.discard(t)
            order.append(t)
            sched.go[t].release()
            drain(0.25)
        drain(0.25)
    finished = len(ended) == len(ops)
    U.HOOK = None
    cleanup()
    return {'ops': ops, 'releases': releases, 'order': order, 'finished': finished, 'results': results}


def stress(seconds):
    """preemptive stress: many threads, microsecond switch interval; every operation must return what it returns alone"""
    U.setup_world()
    sys.setswitchinterval(1e-6)
    tree = {'b': (L(1), [L(2), None]), 'a': U.CA([L(3), U.NT2(L(4), L(5))], 1), 'c': collections.OrderedDict(x=L(6))}
    leaves0, spec0 = optree.tree_flatten(tree)
    ids0 = [id(x) for x in leaves0]
    r0, h0 = repr(spec0), hash(spec0)
    paths0 = optree.tree_paths(tree)
    blob0 = pickle.dumps(spec0)
    stop = time.time() + seconds
    errors, counts = [], collections.Counter()
    lock = threading.Lock()
    shared_items = [L(100 + i) for i in range(2000)]
    shared_iter = optree.tree_iter([shared_items[i:i + 10] for i in range(0, 2000, 10)])
    delivered = []

    def worker(k):
        n = 0
        class Mine:
            pass
        try:
            while time.time() < stop:
                n += 1
                l, s = optree.tree_flatten(tree)
                if [id(x) for x in l] != ids0 or s != spec0 or hash(s) != h0 or repr(s) != r0:
                    errors.append(f'thread {k}: flatten differs from the stand-alone result')
                def same(t2):       # structural identity through a second flatten (custom nodes have no __eq__)
                    l2, s2 = optree.tree_flatten(t2)
                    return [id(x) for x in l2] == ids0 and s2 == spec0
                if optree.tree_paths(tree) != paths0 or not same(optree.tree_unflatten(spec0, l)):
                    errors.append(f'thread {k}: paths/unflatten differ')
                if not same(optree.tree_map(lambda x: x, tree)) or pickle.loads(blob0) != spec0 or not spec0.is_prefix(s):
                    errors.append(f'thread {k}: map/pickle/is_prefix differ')
                if k % 4 == 0:      # unrelated registrations churn the registry
                    optree.register_pytree_node(Mine, lambda x: ((), None), lambda m, c: Mine(), namespace=f'stress{k}')
                    if optree.tree_structure(Mine(), namespace=f'stress{k}').num_leaves != 0:
                        errors.append(f'thread {k}: own registration not visible')
                    optree.unregister_pytree_node(Mine, namespace=f'stress{k}')
                if k % 4 == 1:
                    got = []
                    for _ in range(5):
                        try:
                            got.append(next(shared_iter))
                        except StopIteration:
                            break
                    with lock:
                        delivered.extend(got)
        except Exception as ex:   # noqa: BLE001
            errors.append(f'thread {k}: {type(ex).__name__}: {ex}')
        counts[k] = n
    # concurrent registration of ONE (type, namespace): exactly one winner
    class Contended:
        pass
    wins = []

    def racer():
        try:
            optree.register_pytree_node(Contended, lambda x: ((), None), lambda m, c: Contended(), namespace='race')
            wins.append(1)
        except ValueError:
            wins.append(0)
    ts = [threading.Thread(target=worker, args=(k,)) for k in range(16)] + [threading.Thread(target=racer) for _ in range(8)]
    for t in ts:
        t.start()
    for t in ts:
        t.join()
    try:
        optree.unregister_pytree_node(Contended, namespace='race')
    except Exception:   # noqa: BLE001
        pass
    if sum(wins) != 1:
        errors.append(f'concurrent registration of one (type, namespace): {sum(wins)} winners')
    if len(delivered) != len({id(x) for x in delivered}):
        errors.append('shared iterator delivered a leaf twice')
    rest = list(shared_iter)
    if {id(x) for x in delivered} | {id(x) for x in rest} != {id(x) for x in shared_items} or len(delivered) + len(rest) != len(shared_items):
        errors.append('shared iterator lost or duplicated leaves')
    return {'iterations': sum(counts.values()), 'errors': errors[:20], 'delivered_by_threads': len(delivered)}


def main():
    mode = sys.argv[1]
    if mode == 'replay':
        inp, outp, prog, start = sys.argv[2], sys.argv[3], sys.argv[4], int(sys.argv[5])
        cases = [json.loads(l) for l in open(inp)]
        with open(outp, 'a') as fo, open(prog, 'a') as fp:
            for i in range(start, len(cases)):
                fp.write(f'{i}\n'); fp.flush()
                r = replay(cases[i])
                r['i'] = i
                fo.write(json.dumps(r) + '\n'); fo.flush()
    else:
        json.dump(stress(float(sys.argv[3])), open(sys.argv[2], 'w'))


if __name__ == '__main__':
    main()
