"""Driver for C20: tree_ravel / unravel on numpy, jax and torch.   IN: {"ls": [{"shape": [...], "dt": k}, ...], "struct": tree-ish id}"""
import json, sys, itertools, collections

import numpy as np
import optree
from harness import vuniv as U

KIND = {1: 'bool', 2: 'int32', 3: 'float32', 4: 'complex64'}
WIDE = {1: 'bool', 2: 'int64', 3: 'float64', 4: 'complex128'}


def backends():
    out = {}
    import optree.integration.numpy as onp
    out['numpy'] = dict(ravel=onp.tree_ravel, mk=lambda vals, shape, dt: np.asarray(vals, dtype=dt).reshape(shape), dtype=lambda a: str(a.dtype),
                        result=lambda arrs: str(np.result_type(*arrs)), tolist=lambda a: np.asarray(a).ravel().tolist(), shape=lambda a: list(np.shape(a)),
                        asflat=lambda vals, dt: np.asarray(vals, dtype=dt), is1d=lambda a: np.ndim(a) == 1)
    try:
        import jax
        jax.config.update('jax_enable_x64', True)
        import jax.numpy as jnp
        import optree.integration.jax as ojax
        out['jax'] = dict(ravel=ojax.tree_ravel, mk=lambda vals, shape, dt: jnp.asarray(np.asarray(vals, dtype=dt).reshape(shape)), dtype=lambda a: str(a.dtype),
                          result=lambda arrs: str(jnp.result_type(*arrs)), tolist=lambda a: np.asarray(a).ravel().tolist(), shape=lambda a: list(a.shape),
                          asflat=lambda vals, dt: jnp.asarray(np.asarray(vals, dtype=dt)), is1d=lambda a: a.ndim == 1)
    except Exception as ex:   # noqa: BLE001
        out['jax-unavailable'] = str(ex)
    try:
        import torch
        import optree.integration.torch as otorch
        tdt = lambda s: getattr(torch, s)   # noqa: E731

        def tres(arrs):
            d = arrs[0].dtype
            for a in arrs[1:]:
                d = torch.promote_types(d, a.dtype)
            return str(d).replace('torch.', '')
        out['torch'] = dict(ravel=otorch.tree_ravel, mk=lambda vals, shape, dt: torch.tensor(np.asarray(vals, dtype=dt).reshape(shape)), dtype=lambda a: str(a.dtype).replace('torch.', ''),
                            result=tres, tolist=lambda a: a.detach().reshape(-1).resolve_conj().numpy().tolist(), shape=lambda a: list(a.shape),
                            asflat=lambda vals, dt: torch.tensor(np.asarray(vals, dtype=dt)), is1d=lambda a: a.dim() == 1)
    except Exception as ex:   # noqa: BLE001
        out['torch-unavailable'] = str(ex)
    return out


def embed(arrs, struct):
    """place the leaves into a pytree structure (leaf order = list order)"""
    it = iter(arrs)
    n = len(arrs)
    if struct == 'list':
        return list(arrs)
    if struct == 'dict':          # keys already sorted: flatten order = list order
        return {f'k{i:02d}': a for i, a in enumerate(arrs)}
    if struct == 'nested':
        return (list(arrs[:n // 2]), {'m': tuple(arrs[n // 2:]), 'n': None})
    if struct == 'odict-custom':
        return collections.OrderedDict(z=U.CA(list(arrs[:1]), 1), a=list(arrs[1:]))
    return tuple(arrs)


def run(item, B):
    ls = item['ls']
    out = []
    for bname, b in B.items():
        if 'unavailable' in bname:
            continue
        for widths in (KIND, WIDE) if item.get('wide') else (KIND,):
            arrs = []
            for i, l in enumerate(ls):
                size = int(np.prod(l['shape'])) if l['shape'] else 1
                vals = [((i + 1) * 10 + j) % 2 if l['dt'] == 1 else (i + 1) * 10 + j for j in range(size)]
                arrs.append(b['mk'](vals, l['shape'], widths[l['dt']]))
            for struct in item['structs']:
                for nil in (False, True):
                    case = {'op': 'ravel', 'backend': bname, 'ls': ls, 'struct': struct, 'nil': nil, 'widths': 'wide' if widths is WIDE else 'narrow'}
                    try:
                        tree = embed(arrs, struct)
                        leaves = optree.tree_leaves(tree, none_is_leaf=nil)
                        if any(x is None for x in leaves):
                            continue          # a None leaf is not an array: outside the property
                        flat, unravel = b['ravel'](tree, none_is_leaf=nil, namespace='')
                        total = sum(int(np.prod(l['shape'])) if l['shape'] else 1 for l in ls)
                        exp_dt = b['result'](arrs) if arrs else None
                        # expected flat content: concatenation in leaf order of the raveled leaves (tags survive every dtype used)
                        exp_vals = [v for a in arrs for v in b['tolist'](a)]
                        case['flat_is_1d'] = bool(b['is1d'](flat))
                        case['flat_len'] = len(b['tolist'](flat))
                        case['total'] = total
                        case['flat_values_ok'] = [complex(x) for x in b['tolist'](flat)] == [complex(x) for x in exp_vals]
                        case['flat_dtype_ok'] = (not arrs) or b['dtype'](flat) == exp_dt
                        back = unravel(flat)
                        bl = optree.tree_leaves(back, none_is_leaf=nil)
                        case['structure_ok'] = optree.tree_structure(back, none_is_leaf=nil) == optree.tree_structure(tree, none_is_leaf=nil)
                        case['shapes_ok'] = [b['shape'](x) for x in bl] == [list(l['shape']) for l in ls]
                        case['dtypes_ok'] = [b['dtype'](x) for x in bl] == [b['dtype'](a) for a in arrs]
                        case['values_ok'] = all([complex(v) for v in b['tolist'](x)] == [complex(v) for v in b['tolist'](a)] for x, a in zip(bl, arrs))
                        # another vector of the same length and dtype
                        if arrs:
                            other_vals = [(k * 3) % 2 if exp_dt == 'bool' else k + 1 for k in range(total)]
                            v = b['asflat'](other_vals, exp_dt)
                            u2 = unravel(v)
                            f2, _ = b['ravel'](u2, none_is_leaf=nil)
                            mixed = len({b['dtype'](a) for a in arrs}) > 1
                            case['mixed'] = mixed
                            # representable: every leaf dtype can hold the values (bool leaves only when values are 0/1; skip the law otherwise)
                            representable = not (mixed and any(l['dt'] == 1 for l in ls)) and not (mixed and any(l['dt'] == 2 for l in ls) and False)
                            case['ravel_unravel_v'] = (not representable) or [complex(x) for x in b['tolist'](f2)] == [complex(x) for x in other_vals]
                            # wrong shape
                            try:
                                unravel(b['asflat'](other_vals + [1], exp_dt))
                                case['wrong_len_rejected'] = False
                            except (ValueError, TypeError, RuntimeError):
                                case['wrong_len_rejected'] = True
                            try:
                                unravel(b['asflat'](other_vals, exp_dt).reshape((1, total)) if total else b['asflat']([[0]], exp_dt))
                                case['wrong_rank_rejected'] = False
                            except (ValueError, TypeError, RuntimeError):
                                case['wrong_rank_rejected'] = True
                            wrong_dt = 'float64' if exp_dt != 'float64' else 'float32'
                            try:
                                unravel(b['asflat']([float(x.real) if isinstance(x, complex) else float(x) for x in other_vals], wrong_dt))
                                case['wrong_dtype_rejected'] = False
                            except (ValueError, TypeError, RuntimeError):
                                case['wrong_dtype_rejected'] = True
                        else:
                            case['mixed'] = False
                            case['empty_ok'] = case['flat_len'] == 0 and case['flat_is_1d']
                        case['err'] = ''
                    except Exception as ex:   # noqa: BLE001
                        case['err'] = type(ex).__name__ + ':' + str(ex)[:150]
                    out.append(case)
    return out


def main():
    inp, outp = sys.argv[1], sys.argv[2]
    U.setup_world()
    B = backends()
    with open(outp, 'w') as fh:
        fh.write(json.dumps({'op': 'ravel-backends', 'available': [k for k in B if 'unavailable' not in k], 'missing': {k: v for k, v in B.items() if 'unavailable' in k}}) + '\n')
        for line in open(inp):
            for c in run(json.loads(line), B):
                fh.write(json.dumps(c) + '\n')


if __name__ == '__main__':
    main()
