"""Model-side encodings that need no optree (usable from the check runner's plain python3)."""

KINT, KSTR, KFLT, KORD, KUNORD, KNEST, KTIE, KTUP = 0, 1, 2, 3, 4, 5, 6, 7


def T(k, id=-1, ch=(), keys=(), meta=0, cls=0, ent=(), hasent=False, fault=''):
    return {'k': k, 'id': id, 'ch': list(ch), 'keys': [list(x) for x in keys], 'meta': meta, 'cls': cls,
            'ent': [list(x) for x in ent], 'hasent': hasent, 'fault': fault}
