"""C08 - treespec inspection, constructors, transform and compose are consistent."""
import json, random
from harness.checks import pairfam as P, treefam as F


def main(run):
    quick = run.tier == 'quick'
    run.rule = ('TLC checks the encoding invariant (WellFormed), the children/child(i)/one_level laws on every TreeGen tree and the compose '
                'law (compose = structure of the a-shaped tree of b-shaped trees, leaves multiply) on every PairGen pair; every inspection '
                'method (counts, kind, type, is_leaf, is_one_level, children, child(i)/entry(i) for i in [-n-1, n], entries, one_level, '
                'paths, accessors, repr) of the real treespecs of all dumped / random trees is judged against layer D, the root is rebuilt '
                'through transform / treespec_from_collection / the named constructor, and compose / transform are judged on pairs; '
                'non-trivial = treespec whose root has >= 2 children of different sizes')
    rng = random.Random(run.seed)
    bounds = [('A', 4, 2, 2), ('B1', 3, 2, 2), ('B2', 3, 2, 2)] if quick else [('A', 5, 2, 2), ('B1', 4, 3, 3), ('B2', 4, 2, 2)]
    trees, _ = F.model_phase(run, bounds, ['InvC08s'])
    trees = F.cap(trees, 5000 if quick else 150000, rng, run)
    items = [{'t': t, 'cfgs': F.rotate_cfgs(i, rng, 2 if quick else 6)} for i, t in enumerate(trees)]
    uneven = lambda t: len({F.tree_size(c) for c in t['ch']}) > 1   # noqa: E731
    for t in trees:
        if uneven(t):
            run.nontrivial.add(F.tree_key(t))
    run.evaluations += F.drive_and_judge(run, 's2c', items, ['inspect'])
    rt = F.random_trees(run.seed + 5, 2000 if quick else 30000)
    items = [{'t': t, 'cfgs': F.rotate_cfgs(i, rng, 2 if quick else 4)} for i, t in enumerate(rt)]
    for t in rt:
        if uneven(t):
            run.nontrivial.add(F.tree_key(t))
    run.evaluations += F.drive_and_judge(run, 'c2s', items, ['inspect'])
    # constructors on collections of treespecs made under the same / other option sets (namespace and none_is_leaf rules of A6)
    plain = [c for c in F.CFGS if not c['haspred']]
    items = [{'t': t, 'cfgs': [plain[(i * 7) % len(plain)]], 'kidcfgs': plain} for i, t in enumerate(trees + rt) if t['ch']]
    run.evaluations += F.drive_and_judge(run, 'fromcoll', items[:4000 if quick else 100000], ['fromcoll'])
    # compose / transform on pairs
    pb = [('PA', 3, 2, 2)] if quick else [('PA', 4, 2, 2), ('PB', 3, 2, 2)]
    pairs = P.pair_model_phase(run, pb, ['PInvC08'])
    if len(pairs) > (3000 if quick else 100000):
        rng.shuffle(pairs)
        pairs = pairs[:3000 if quick else 100000]
    n, _ = P.run_pairs(run, 'pairs', pairs, ['compose'], 1 if quick else 3, rng)
    run.evaluations += n
    n, _ = P.run_pairs(run, 'rpairs', P.random_pairs(run.seed + 6, 1000 if quick else 20000), ['compose'], 1, rng)
    run.evaluations += n
    # the mismatch rules (none_is_leaf / namespace) of compose, transform, broadcast, ==, <=, transpose on cross-option pairs
    run.evaluations += P.run_xspec(run, 'xspec', pairs[:1500 if quick else 30000] + P.random_pairs(run.seed + 8, 800 if quick else 10000), rng)
    run.exhaustive = False
    run.extra['bounds'] = [list(b) for b in bounds + pb]
