"""C02 - leaf order and node/leaf classification follow the documented rules (differential against layer D)."""
import random
from harness.checks import treefam as F

EPS = ['tree_flatten', 'tree_leaves', 'tree_structure']


def main(run):
    quick = run.tier == 'quick'
    run.rule = ('layer D (PyTreeSem.Flatten, written from the README rules) is the reference; TLC checks the None-removal / predicate '
                'refinement / insertion-permutation / classification laws on every TreeGen forest incl. every insertion permutation of '
                'dicts over mixed and mutually incomparable keys (alphabet K); every dumped tree and seeded random trees are flattened by '
                'the real tree_flatten / tree_leaves / tree_structure / tree_replace_nones and TLC compares leaves and the full node '
                'array with the reference; non-trivial = tree contains a dict kind with >= 2 keys, a custom/sub/None node or a predicate hit')
    bounds = [('A', 4, 2, 2), ('B2', 3, 2, 2), ('K', 4, 3, 3)] if quick else [('A', 5, 2, 2), ('B1', 4, 3, 3), ('B2', 4, 2, 2), ('K', 4, 3, 3), ('KO', 4, 3, 3)]
    rng = random.Random(run.seed)
    trees, _ = F.model_phase(run, bounds, ['InvC02'])
    trees = F.cap(trees, 5000 if quick else 40000, rng, run)
    items = [{'t': t, 'cfgs': F.rotate_cfgs(i, rng, 2 if quick else 3), 'eps': EPS} for i, t in enumerate(trees)]
    nt = lambda t: any(s['k'] in ('custom', 'sub', 'none') or (s['k'] in ('dict', 'ddict') and len(s['keys']) > 1) for s in F.subtrees(t))  # noqa: E731
    for t in trees:
        if nt(t):
            run.nontrivial.add(F.tree_key(t))
    run.evaluations += F.drive_and_judge(run, 's2c', items, ['flatten', 'c02laws'])
    rt = F.random_trees(run.seed + 1, 2000 if quick else 12000)
    items = [{'t': t, 'cfgs': F.rotate_cfgs(i, rng, 2 if quick else 3), 'eps': EPS} for i, t in enumerate(rt)]
    for t in rt:
        if nt(t):
            run.nontrivial.add(F.tree_key(t))
    run.evaluations += F.drive_and_judge(run, 'c2s', items, ['flatten', 'c02laws'])
    run.evaluations += F.drive_and_judge(run, 'classobj', [], ['classobj'])
    run.exhaustive = False
    run.extra['bounds'] = [list(b) for b in bounds]
