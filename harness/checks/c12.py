"""C12 - registry changes are namespace-isolated, atomic and reversible."""
import json
from harness.checks import regfam as R


def main(run):
    quick = run.tier == 'quick'
    run.rule = ('RegHist: every history of register / unregister calls (4 registrable types incl. subclass, namedtuple subclass, struct '
                'sequence; built-in and non-class; namespaces GLOBAL/a/b/""/non-str; bad entry type; warnings-as-errors on/off) up to the '
                'length bound; TLC checks VariantAgree, MirrorExact and the action properties Atomic and Isolation on all of them; each '
                'history is replayed on the real optree with fresh classes and after EVERY call 72 observations (flatten + one-level in '
                '3 namespaces x 2 none_is_leaf x 4 types, get(cls), get()) are validated by TLC (TraceRegistry) against the model state; '
                'non-trivial = histories containing a failing call after a successful registration')
    L = 2 if quick else 3
    hs = R.exhaustive_histories(run, 'reg', L, cap=None if quick else 60000, seed=run.seed)
    run.extra['exhaustive_history_length'] = L
    sim = R.simulated_histories(run, 'reg', 300 if quick else 3000, 8, run.seed)
    rnd = R.random_histories('reg', 300 if quick else 5000, 30, run.seed)
    if quick:
        import random
        rng = random.Random(run.seed)
        h3 = R.exhaustive_histories(run, 'reg', 3)
        rng.shuffle(h3)
        hs += h3[:1500]
    for h in hs + sim + rnd:
        seen_ok = False
        for c in h:
            if c['op'] == 'register' and c['pet'] == 'ok' and c['ns'] in ('GLOBAL', 'a', 'b') and c['ty'] in (1, 2, 3, 4):
                seen_ok = True
            elif seen_ok and (c['wae'] or c['ns'] in ('', 'NONSTR') or c['ty'] in (5, 6) or c['pet'] == 'bad'):
                run.nontrivial.add(json.dumps(h))
                break
    # unbounded argument for the design (history length and number of registrations unbounded): Apalache discharges the
    # inductive invariant of spec/RegInd.tla (VariantAgree, MirrorExact, fresh registration ids): base case and inductive step
    import os, shutil, subprocess
    from harness import tla
    if shutil.which('apalache-mc'):
        wd = os.path.join(tla.WORK, f'{run.pid}-apalache')
        shutil.rmtree(wd, ignore_errors=True)
        os.makedirs(wd)
        shutil.copy(os.path.join(tla.SPEC, 'RegInd.tla'), wd)
        ok = []
        for init, length in (('Init', 0), ('IndInit', 1)):
            try:
                p = subprocess.run(['apalache-mc', 'check', f'--init={init}', '--inv=IndInv', f'--length={length}', f'--out-dir={wd}/out', 'RegInd.tla'],
                                   cwd=wd, capture_output=True, text=True, timeout=900)
                ok.append('The outcome is: NoError' in p.stdout)
                if 'The outcome is: Error' in p.stdout:
                    run.violation({'kind': 'model', 'invariant': 'IndInv', 'step': init}, f'Apalache: the inductive invariant of RegInd.tla fails ({init})')
            except subprocess.TimeoutExpired:
                ok.append(False)
        run.extra['apalache_inductive_invariant'] = {'base_case': ok[0], 'inductive_step': ok[1]}
        shutil.rmtree(wd, ignore_errors=True)
    run.evaluations += R.replay_and_validate(run, 'exh', hs)
    run.evaluations += R.replay_and_validate(run, 'sim', sim)
    run.evaluations += R.replay_and_validate(run, 'rnd', rnd)
    run.exhaustive = False
