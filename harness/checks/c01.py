"""C01 - flatten / unflatten round trip."""
import json, random
from harness.checks import treefam as F


def main(run):
    quick = run.tier == 'quick'
    run.rule = ('TLC enumerates every forest of TreeGen within the bounds with the round-trip laws RT1-RT3 as invariants over every option '
                'combination; the distinct single trees are dumped, realised as real Python objects and taken through flatten / three '
                'rebuild routes / re-flatten / replacement leaves by the real optree under rotating option combinations; container '
                'histories (HistGen) and seeded random trees of up to 40 nodes go through the same judge; non-trivial = has an internal '
                'node; distinct = distinct model trees')
    bounds = [('A', 4, 2, 2), ('B1', 4, 2, 2), ('B2', 3, 2, 2), ('K', 4, 3, 3)] if quick else \
             [('A', 5, 2, 2), ('B1', 4, 3, 3), ('B2', 4, 2, 2), ('K', 4, 3, 3), ('KO', 4, 3, 3)]
    rng = random.Random(run.seed)
    trees, _ = F.model_phase(run, bounds, ['InvC01'])
    trees = F.cap(trees, 6000 if quick else 40000, rng, run)
    items = [{'t': t, 'cfgs': F.rotate_cfgs(i, rng, 2 if quick else 3)} for i, t in enumerate(trees)]
    for t in trees:
        if F.nontrivial_tree(t):
            run.nontrivial.add(F.tree_key(t))
    run.evaluations += F.drive_and_judge(run, 's2c', items, ['roundtrip'])
    # containers reached through a construction history (storage order != logical order)
    hitems = F.hist_phase(run, 3 if quick else 5)
    hitems += F.random_hist_items(run.seed, 400 if quick else 6000)
    for i, it in enumerate(hitems):
        it['cfgs'] = F.rotate_cfgs(i, rng, 1 if quick else 3)
        run.nontrivial.add(json.dumps(it['hist']))
    run.extra['history_built_containers'] = len(hitems)
    run.evaluations += F.drive_and_judge(run, 'hist', hitems, ['roundtrip'])
    # code -> spec: random trees far beyond the TLC bound
    rt = F.random_trees(run.seed, 2000 if quick else 12000)
    items = [{'t': t, 'cfgs': F.rotate_cfgs(i, rng, 2 if quick else 3)} for i, t in enumerate(rt)]
    for t in rt:
        run.nontrivial.add(F.tree_key(t))
    run.evaluations += F.drive_and_judge(run, 'c2s', items, ['roundtrip'])
    run.exhaustive = False
    run.extra['bounds'] = [list(b) for b in bounds]
