"""C14 - treespecs are immutable values independent of their source tree and registry."""
import json, os, random, shutil
from harness import tla
from harness.checks import treefam as F


def main(run):
    quick = run.tier == 'quick'
    L = 2 if quick else 3
    run.rule = ('HeapHist.tla: every history (to the length bound) over 25 actions: mutate the source containers, mutate each of the 8 hand-outs '
                '(paths, accessors, entries, children, child, one_level, the leaves list, the lists inside __getstate__), use the treespec as '
                'operand of 12 operations in succeeding and failing instances, unregister / re-register (with different functions) its custom type, delete the tree, gc; every '
                'exhaustive history also after an unregister + re-register prefix; '
                'TLC checks Immutable on all (and must violate it when a hand-out is declared aliased: vacuity guard); each history is replayed '
                'on a tree with dict / defaultdict / OrderedDict / deque / namedtuple / custom-with-entries nodes: after EVERY step the treespec '
                'and four partner treespecs are fully re-observed (state, repr, hash, paths, accessors, entries, children, one_level, unflatten), '
                'inputs are compared with their pre-call snapshots, leaves must not be retained after the tree is deleted; plus GC of cycles '
                'through metadata; non-trivial = histories containing a failing operand use or a hand-out mutation')
    cfg = f'SPECIFICATION HSpec\nCONSTANTS\n  MaxLen = {L}\n  Aliased = {{}}\nINVARIANT Immutable\nCHECK_DEADLOCK FALSE\n'
    r = run.tlc('heap', 'HeapHist', cfg, dump=True, timeout=1800)
    if r.violated:
        run.violation({'kind': 'model', 'invariant': r.violated}, 'TLC: Immutable fails on HeapHist')
    hs = []
    if r.dump and os.path.exists(r.dump):
        for st in tla.read_dump(r.dump):
            if len(st['hist']) == L:
                hs.append(list(st['hist']))
        os.remove(r.dump)
    shutil.rmtree(os.path.join(r.wd, 'meta'), ignore_errors=True)
    r2 = run.tlc('heap-alias', 'HeapHist', cfg.replace('Aliased = {}', 'Aliased = {"mutate_entries"}'), timeout=600)
    run.extra['counterexample_when_aliased'] = r2.violated
    if not r2.violated:
        run.machinery('vacuity guard: HeapHist with an aliased hand-out should violate Immutable')
    # every exhaustive history once more in the third registry epoch (the class unregistered and registered AGAIN, differently)
    hs += [['unregister', 'reregister'] + h for h in hs]
    rng = random.Random(run.seed)
    acts = sorted({a for h in hs for a in h})
    if quick:
        for _ in range(1500):
            hs.append([rng.choice(acts) for _ in range(3)])
    for _ in range(300 if quick else 5000):
        hs.append([rng.choice(acts) for _ in range(rng.randint(5, 12))])
    # histories must respect enabledness (unregister only when registered, ...): filter by simulation
    ok = []
    for h in hs:
        reg, alive, good = True, True, True
        for a in h:
            if (a == 'unregister' and not reg) or (a == 'reregister' and reg) or (a in ('mutate_source', 'delete_tree') and not alive):
                good = False
                break
            reg = False if a == 'unregister' else True if a == 'reregister' else reg
            alive = False if a == 'delete_tree' else alive
        if good:
            ok.append(h)
    for h in ok:
        if any(a.endswith('_fail') or a.startswith('mutate_') for a in h):
            run.nontrivial.add(json.dumps(h))
    wd = os.path.join(tla.WORK, f'{run.pid}-heap')
    shutil.rmtree(wd, ignore_errors=True)
    os.makedirs(wd)
    inp, outp = os.path.join(wd, 'hist.ndjson'), os.path.join(wd, 'out.ndjson')
    F.write_work(inp, [{'tid': i + 1, 'hist': h} for i, h in enumerate(ok)])
    p = run.drive('harness.drivers.d_heap', [inp, outp])
    if p.returncode == 0:
        cases = [json.loads(l) for l in open(outp)]
        fails = run.judge(cases, 'heap')
        for idx, clauses in fails:
            c = cases[idx]
            run.violation({'kind': 'judge', 'op': c['op'], 'clauses': clauses, 'case': c},
                          f'{c["op"]} history {c.get("hist")}: {clauses}')
        run.evaluations += len(cases)
        for c in cases[:2]:
            run.sample({'history': c.get('hist')})
    shutil.rmtree(wd, ignore_errors=True)
    run.exhaustive = False
    run.extra['exhaustive_history_length'] = L
