"""C10 - transposition swaps outer and inner structure without losing or moving values."""
import json, os, random
from harness import tla
from harness.checks import pairfam as P, treefam as F


def main(run):
    quick = run.tier == 'quick'
    run.rule = ('every forest <<outer, inner>> of TreeGen: TLC checks the index law, involution, the result structure (= compose(inner, outer)) '
                'and rejection of empty structures / wrong counts on the model; for every dumped and random pair the real tree_transpose is '
                'applied to an outer-of-inner tree of fresh leaves and back, the three tree_transpose_map variants run with a recording '
                'function (inner structure inferred and given), and TLC judges leaf positions by identity; non-trivial = m >= 2 and n >= 2')
    bounds = [('A', 4, 2, 2), ('B2', 3, 2, 2)] if quick else [('A', 5, 2, 2), ('B1', 4, 2, 2), ('B2', 4, 2, 2)]
    rng = random.Random(run.seed)
    _, pairs = F.model_phase(run, bounds, ['InvC10'], want_pairs=True)
    cap = 4000 if quick else 150000
    if len(pairs) > cap:
        rng.shuffle(pairs)
        run.extra['generated_pairs'] = len(pairs)
        pairs = pairs[:cap]
    rt = F.random_trees(run.seed + 21, 1600 if quick else 30000, max_nodes=10)
    for i in range(0, len(rt) - 1, 2):
        b = rt[i + 1]
        P.relabel(b, 20000)
        pairs.append((rt[i], b))
    items = [{'a': a, 'b': b, 'cfgs': [P.PAIR_CFGS[(i * 5) % len(P.PAIR_CFGS)]]} for i, (a, b) in enumerate(pairs)]
    wd = os.path.join(tla.WORK, f'{run.pid}-tr')
    os.makedirs(wd, exist_ok=True)
    inp, outp = os.path.join(wd, 'work.ndjson'), os.path.join(wd, 'cases.in.ndjson')
    F.write_work(inp, items)
    p = run.drive('harness.drivers.d_transpose', [inp, outp])
    if p.returncode == 0:
        cases = [json.loads(l) for l in open(outp)]
        for c in cases:
            if c['so']['nodes'][-1]['nl'] >= 2 and c['si']['nodes'][-1]['nl'] >= 2:
                run.nontrivial.add(json.dumps([c['so'], c['si']], sort_keys=True))
        fails = run.judge(cases, 'tr')
        for idx, clauses in fails:
            run.violation({'kind': 'judge', 'op': 'transpose', 'clauses': clauses, 'case': cases[idx]},
                          f'transpose: real optree disagrees with the specification on {clauses}')
        for c in cases[:2]:
            run.sample({'op': 'transpose', 'outer': c['a'], 'inner': c['b']})
        run.evaluations += len(cases)
        os.remove(outp)
    run.exhaustive = False
    run.extra['bounds'] = [list(b) for b in bounds]
