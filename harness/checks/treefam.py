"""Shared machinery of the tree-shaped properties (C01-C04, C08 ...):

  TLC (TreeGen + laws as invariants, exhaustive)  --dump-->  distinct trees / pairs
     --realise + run on the real optree (drivers)-->  ndjson cases  --TLC Judge-->  verdicts
  + seeded random trees far beyond TLC's bound, through the same driver and the same judge.
"""
import json, os, random, shutil, sys

from harness import tla
from harness.checks import treecfg

REG0 = [['', 1], ['a', 2], ['a', 3], ['b', 3]]
PREDS = [
    {'haspred': False, 'pk': [], 'pi': []},
    {'haspred': True, 'pk': ['tuple'], 'pi': []},
    {'haspred': True, 'pk': ['dict', 'custom', 'deque'], 'pi': [2]},
    {'haspred': True, 'pk': ['none', 'list'], 'pi': [3, 5]},
]
MODES = [[], [''], ['a'], ['zz'], ['a', 'zz']]
NSS = ['', 'a', 'zz']


def all_cfgs(maxdepth=1000):
    out = []
    for nil in (False, True):
        for ns in NSS:
            for p in PREDS:
                for m in MODES:
                    out.append({'nil': nil, 'ns': ns, 'haspred': p['haspred'], 'pk': p['pk'], 'pi': p['pi'], 'modes': m,
                                'reg': REG0, 'maxdepth': maxdepth})
    return out


CFGS = all_cfgs()
DEFAULT_CFG = CFGS[0]


def thaw(v):
    """parsed TLA+ value -> JSON-able (tuples -> lists, FrozenDict -> dict)"""
    if isinstance(v, dict):
        return {k: thaw(x) for k, x in v.items()}
    if isinstance(v, (tuple, list)):
        return [thaw(x) for x in v]
    return v


def nontrivial_tree(t):
    return len(t['ch']) > 0


def tree_size(t):
    return 1 + sum(tree_size(c) for c in t['ch'])


def subtrees(t):
    yield t
    for c in t['ch']:
        yield from subtrees(c)


def tree_key(t):
    return json.dumps(t, sort_keys=True)


def model_phase(run, bounds, invariants, want_pairs=False, max_single=100000, faults=(), max_pairs=400000):
    """Run TLC over each (alphabet, N, stack, arity) with the property's laws as invariants; dump and collect trees.
    Memory: per alphabet at most `max_single` trees of more than 3 nodes are kept (seeded reservoir sample over the streamed dump;
    every smaller tree is kept); TLC's laws are checked on all of them regardless."""
    import random
    rng = random.Random(run.seed * 7919 + 13)
    singles, pairs = {}, []
    seen_pairs = 0
    for (alpha, n, st, ar) in bounds:
        mod, cfg = treecfg.cfg(alpha, n, st, ar, invariants, faults=faults if alpha == 'F' else ())
        r = run.tlc(f'gen{alpha}{n}', mod, cfg, dump=True, timeout=3000)
        if r.violated:
            tr = tla.error_trace(r.out)
            run.violation({'kind': 'model', 'invariant': r.violated, 'alphabet': alpha, 'trace': [thaw(s) for _, s in tr][-1:]},
                          f'TLC: law {r.violated} fails on the specification itself (alphabet {alpha}, N={n})')
        big_keys, seen_big = [], 0
        if r.dump and os.path.exists(r.dump):
            for stt in tla.read_dump(r.dump):
                stack = stt['stack']
                if len(stack) == 1:
                    t = thaw(stack[0])
                    k = tree_key(t)
                    if k in singles:
                        continue
                    if tree_size(t) <= 3:
                        singles[k] = t
                        continue
                    seen_big += 1
                    if len(big_keys) < max_single:
                        singles[k] = t
                        big_keys.append(k)
                    else:
                        j = rng.randrange(seen_big)
                        if j < max_single:
                            del singles[big_keys[j]]
                            singles[k] = t
                            big_keys[j] = k
                elif want_pairs and len(stack) == 2:
                    seen_pairs += 1
                    if len(pairs) < max_pairs:
                        pairs.append((thaw(stack[0]), thaw(stack[1])))
                    else:
                        j = rng.randrange(seen_pairs)
                        if j < max_pairs:
                            pairs[j] = (thaw(stack[0]), thaw(stack[1]))
            os.remove(r.dump)
        if seen_big > max_single:
            run.extra[f'generated_trees_{alpha}{n}'] = seen_big
            run.extra[f'kept_trees_{alpha}{n}'] = max_single
        shutil.rmtree(os.path.join(r.wd, 'meta'), ignore_errors=True)
    if seen_pairs > max_pairs:
        run.extra['generated_pairs_model_phase'] = seen_pairs
    return list(singles.values()), pairs


def hist_phase(run, max_hist, invariants=('HistInv',), kinds=('dict', 'odict', 'ddict', 'deque')):
    """TLC over HistGen; returns work items {'t', 'hist'} for every state that embeds its container"""
    cfg = f'''SPECIFICATION HSpec
CONSTANTS
  MaxNodes = 1
  MaxStack = 1
  MaxArity = 1
  Kinds = {{}}
  KeyU <- MCKeyU
  NtCls <- MCNtCls
  CustomCls <- MCCustomCls
  Metas = {{1}}
  MaxLens = {{0}}
  Factories = {{0}}
  Faults = {{}}
  Reg0 <- MCReg0
  NsSet = {{"", "a"}}
  ModeSet <- MCModeSet
  PredSet <- MCPredSet
  Depth = 10
  HKinds = {treecfg.tla_set(kinds)}
  HKeys <- MCHKeys
  MaxHist = {max_hist}
  HMaxLen = 3
''' + ''.join(f'INVARIANT {i}\n' for i in invariants) + 'CHECK_DEADLOCK FALSE\n'
    r = run.tlc(f'hist{max_hist}', 'MC_Hist', cfg, dump=True, timeout=3000)
    if r.violated:
        tr = tla.error_trace(r.out)
        run.violation({'kind': 'model', 'invariant': r.violated, 'trace': [thaw(s) for _, s in tr][-1:]},
                      f'TLC: law {r.violated} fails on the specification itself (HistGen)')
    items = []
    if r.dump and os.path.exists(r.dump):
        for st in tla.read_dump(r.dump):
            if st['embed'] == 'none':
                continue
            ops = [[o[0], list(o[1]), o[2]] for o in st['hist']]
            items.append({'t': thaw(st['obs']), 'hist': {'id': 900, 'kind': st['kind'], 'maxlen': 3, 'ops': ops}})
        os.remove(r.dump)
    shutil.rmtree(os.path.join(r.wd, 'meta'), ignore_errors=True)
    return items


def random_hist_items(seed, count, max_ops=30):
    """long random histories (code -> spec direction); the expected logical content is computed by the same rules as HistGen
    and is confirmed against the real container by the driver's self-check"""
    from harness.vuniv_model import T
    rng = random.Random(seed)
    items = []
    for _ in range(count):
        kind = rng.choice(['dict', 'odict', 'ddict', 'deque'])
        keys, vals, ops, nxt = [], [], [], 1
        pool = [list(k) for k in rng.sample(KEYS, 6)]
        maxlen = 3
        for _ in range(rng.randint(1, max_ops)):
            if kind == 'deque':
                op = rng.choice(['append', 'appendleft', 'rotate'])
                if op == 'append':
                    vals = (vals[1:] if len(vals) == maxlen - 1 else vals) + [nxt]
                    ops.append(['append', [0, 0], nxt]); nxt += 1
                elif op == 'appendleft':
                    vals = [nxt] + (vals[:-1] if len(vals) == maxlen - 1 else vals)
                    ops.append(['appendleft', [0, 0], nxt]); nxt += 1
                elif len(vals) >= 2:
                    vals = [vals[-1]] + vals[:-1]
                    ops.append(['rotate', [0, 0], 1])
                continue
            k = rng.choice(pool)
            op = rng.choice(['set', 'set', 'del', 'move', 'miss'])
            if op == 'set':
                if k in keys:
                    vals[keys.index(k)] = nxt
                else:
                    keys.append(k); vals.append(nxt)
                ops.append(['set', k, nxt]); nxt += 1
            elif op == 'del' and k in keys:
                i = keys.index(k); del keys[i]; del vals[i]
                ops.append(['del', k, 0])
            elif op == 'move' and kind == 'odict' and k in keys:
                last = rng.random() < 0.5
                i = keys.index(k); v = vals[i]; del keys[i]; del vals[i]
                if last:
                    keys.append(k); vals.append(v)
                else:
                    keys.insert(0, k); vals.insert(0, v)
                ops.append(['move', k, 1 if last else 0])
            elif op == 'miss' and kind == 'ddict' and k not in keys:
                keys.append(k); vals.append(nxt)
                ops.append(['miss', k, nxt]); nxt += 1
        if not ops:
            continue
        cont = T(kind, 900, [T('leaf', v) for v in vals], keys=[] if kind == 'deque' else keys,
                 meta=maxlen if kind == 'deque' else 4 if kind == 'ddict' else 0)
        e = rng.choice(['root', 'tuple', 'custom', 'dictval', 'list2'])
        t = cont if e == 'root' else T('tuple', 901, [T('leaf', 800), cont]) if e == 'tuple' else \
            T('custom', 901, [cont], meta=1, cls=1) if e == 'custom' else \
            T('dict', 901, [cont, T('leaf', 800)], keys=[[1, 4], [1, 2]]) if e == 'dictval' else \
            T('list', 902, [T('odict', 901, [cont], keys=[[0, 3]]), T('none', 0)])
        items.append({'t': t, 'hist': {'id': 900, 'kind': kind, 'maxlen': maxlen, 'ops': ops}})
    return items


# ------------------------------------------------------------------------------------------------
# seeded random model trees (the code -> spec direction goes far beyond TLC's bound)
# ------------------------------------------------------------------------------------------------
KEYS = [[0, v] for v in range(-2, 6)] + [[1, v] for v in range(0, 9)] + [[2, v] for v in range(-1, 3)] + \
       [[3, v] for v in range(1, 4)] + [[4, v] for v in range(1, 4)] + [[5, v] for v in range(1, 3)] + [[6, v] for v in range(0, 6)] + [[7, v] for v in range(0, 6)]


class Gen:
    def __init__(self, rng, kinds=None, max_depth=6, faults=False):
        self.rng = rng
        self.next_id = 0
        self.kinds = kinds or ['tuple', 'list', 'dict', 'odict', 'ddict', 'deque', 'nt', 'ss', 'custom', 'none', 'sub', 'leaf', 'leaf']
        self.max_depth = max_depth

    def fresh(self):
        self.next_id += 1
        return self.next_id

    def keys(self, n):
        r = self.rng
        style = r.random()
        if n >= 5 and style < 0.35:
            # directed: >= 3 sortable keys in random order plus two unorderable keys of ONE class - both sorts of the engine fail,
            # the first one only after it has already moved elements: the documented result is the insertion order
            srt = r.choice([[k for k in KEYS if k[0] == 0], [k for k in KEYS if k[0] in (0, 2)], [k for k in KEYS if k[0] == 1],
                            [k for k in KEYS if k[0] in (0, 1)]])
            ks = r.sample(srt, n - 2)
            pos = sorted(r.sample(range(2, n + 1), 2)) if r.random() < 0.7 else sorted(r.sample(range(n + 1), 2))
            out = list(ks)
            for j, p_ in enumerate(pos):
                out.insert(min(p_, len(out)), [4, j + 1])
            return [list(k) for k in out]
        if style < 0.45:      # one comparable class
            ty = r.choice([0, 1, 3, 5, 6, 6, 7])
            pool = [k for k in KEYS if k[0] == ty]
        elif style < 0.6:     # numbers: int and float mixed
            pool = [k for k in KEYS if k[0] in (0, 2)]
        elif style < 0.85:    # mixed types, sortable by (type name, value)
            pool = [k for k in KEYS if k[0] != 4] + [[4, 1]]
        else:                 # anything, including several unorderable keys
            pool = KEYS
        n = min(n, len(pool))
        return [list(k) for k in r.sample(pool, n)]

    def tree(self, budget, depth=0):
        """returns (tree, nodes used)"""
        from harness.vuniv_model import T
        r = self.rng
        if budget <= 1 or depth >= self.max_depth:
            k = r.choice(['leaf', 'leaf', 'leaf', 'none', 'sub']) if 'none' in self.kinds else 'leaf'
        else:
            k = r.choice(self.kinds)
        if k == 'leaf':
            return T('leaf', self.fresh()), 1
        if k == 'none':
            return T('none', 0), 1
        if k == 'sub':
            return T('sub', self.fresh(), cls=r.choice([31, 32, 33])), 1
        if k == 'nt':
            cls = r.choice([11, 12, 13, 14, 15])
            n = {11: 2, 12: 1, 13: 0, 14: 2, 15: 3}[cls]
        elif k == 'ss':
            cls = r.choice([21, 21, 22])
            n = {21: 2, 22: 5}[cls]
        else:
            cls = 0
            n = r.choice([0, 1, 1, 2, 2, 3, 4, 5, 6])
        n = min(n, max(budget - 1, 0)) if k not in ('nt', 'ss') else n
        kids, used = [], 1
        rem = budget - 1
        for i in range(n):
            share = max(1, rem // (n - i)) if r.random() < 0.5 else max(1, r.randint(1, max(1, rem - (n - i - 1))))
            c, u = self.tree(share, depth + 1)
            kids.append(c)
            used += u
            rem -= u
        nid = self.fresh()
        if k in ('tuple', 'list'):
            return T(k, -1 if (k == 'tuple' and not kids) else nid, kids), used
        if k == 'deque':
            m = r.choice([0, 0, n + 1, n + 3])     # None, exactly full, larger
            return T(k, nid, kids, meta=m), used
        if k in ('dict', 'odict', 'ddict'):
            ks = self.keys(n)
            kids = kids[:len(ks)]
            return T(k, nid, kids, keys=ks, meta=r.choice([0, 1, 2, 3]) if k == 'ddict' else 0), used
        if k in ('nt', 'ss'):
            return T(k, nid, kids, cls=cls), used
        if k == 'custom':
            cls = r.choice([1, 2, 3, 4])
            hasent = cls == 2
            return T(k, nid, kids, meta=r.choice([1, 2, 3]), cls=cls, ent=[[1, i + 1] for i in range(len(kids))] if hasent else [],
                     hasent=hasent), used
        raise ValueError(k)


def random_trees(seed, count, max_nodes=40, **kw):
    rng = random.Random(seed)
    out = []
    for i in range(count):
        g = Gen(rng, **kw)
        t, _ = g.tree(rng.choice([3, 6, 10, 20, max_nodes]))
        out.append(t)
    return out


def inject_fault(t, rng, faults):
    """turn one registered-custom node of t into a malformed one (single fault per tree); no-op if there is none"""
    cands = [s for s in subtrees(t) if s['k'] == 'custom' and s['cls'] in (1, 3)]
    if cands:
        s = rng.choice(cands)
        s['fault'] = rng.choice([f for f in faults if f != 'entshort' or s['ch']])
        s['hasent'] = False
        s['ent'] = []


def sample_cfgs(rng, k, always_default=True):
    cs = rng.sample(CFGS, k)
    if always_default and DEFAULT_CFG not in cs:
        cs[0] = DEFAULT_CFG
    return cs


def rotate_cfgs(i, rng, k):
    """deterministic rotation through all option combinations (every combination is used about equally often)"""
    out = [CFGS[(i * 7 + j * 37) % len(CFGS)] for j in range(k)]
    if i % 5 == 0:
        out[0] = DEFAULT_CFG
    return out


def cap(trees, limit, rng, run):
    """replay budget: keep every tree of at most 3 nodes, sample the rest (seeded); the TLC laws stay exhaustive"""
    if len(trees) <= limit:
        run.extra.setdefault('replayed_all_generated_trees', True)
        return trees
    small = [t for t in trees if tree_size(t) <= 3]
    rest = [t for t in trees if tree_size(t) > 3]
    rng.shuffle(rest)
    run.extra['replayed_all_generated_trees'] = False
    run.extra['generated_trees'] = len(trees)
    return small + rest[:max(0, limit - len(small))]


def write_work(path, items):
    with open(path, 'w') as fh:
        for it in items:
            fh.write(json.dumps(it, separators=(',', ':')) + '\n')


def drive_and_judge(run, label, items, families, driver='harness.drivers.d_tree', describe=None, chunk=10000):
    """items: list of {'t':..., 'cfgs': [...]}; returns the number of cases judged.  Large work lists are processed in chunks so
    that the cases of one chunk only are held in memory (the thorough tiers used to exhaust it)."""
    if len(items) <= chunk:
        return _drive_and_judge(run, label, items, families, driver, describe)
    n = 0
    for k in range(0, len(items), chunk):
        n += _drive_and_judge(run, f'{label}-{k // chunk}', items[k:k + chunk], families, driver, describe)
    return n


def _drive_and_judge(run, label, items, families, driver='harness.drivers.d_tree', describe=None):
    """one chunk"""
    if not items and 'depth' not in families and 'classobj' not in families:
        return 0
    wd = os.path.join(tla.WORK, f'{run.pid}-{label}')
    os.makedirs(wd, exist_ok=True)
    inp, outp = os.path.join(wd, 'work.ndjson'), os.path.join(wd, 'cases.in.ndjson')
    write_work(inp, items)
    special = 'depth' in families or 'classobj' in families
    p = run.drive(driver, [inp, outp, ','.join(families)], timeout=420 if special else 3600, check=not special)
    if p.returncode != 0:
        if special:
            # the depth / class-object cases run engine code that may crash or loop forever when broken: that is a violation
            run.violation({'kind': 'crash-or-hang', 'families': families, 'rc': p.returncode, 'stderr': p.stderr[-600:]},
                          f'{families}: the driver crashed or did not terminate (rc={p.returncode}: {p.stderr[-120:]!r})')
        return 0
    cases = [json.loads(l) for l in open(outp)]
    for c in cases:
        if c.get('op') == 'selfcheck-failed':
            run.machinery(f'project(realise(t)) != t for {json.dumps(c)[:400]}')
            return 0
    fails = run.judge(cases, label)
    for idx, clauses in fails:
        c = cases[idx]
        rec = {'kind': 'judge', 'op': c['op'], 'clauses': clauses, 'case': c}
        run.violation(rec, f'{c["op"]}: real optree disagrees with the specification on {clauses}')
    for c in cases[:2] + cases[len(cases) // 2: len(cases) // 2 + 1]:
        run.sample({'op': c['op'], 'input': c.get('t', c.get('spec')), 'cfg': c.get('cfg')})
    os.remove(outp)
    try:
        os.remove(os.path.join(wd, 'cases.ndjson'))
    except OSError:
        pass
    return len(cases)
