"""C06 - treespec equality means same structure, and equal treespecs hash equally."""
import json, random
from harness.checks import pairfam as P, treefam as F


def main(run):
    quick = run.tier == 'quick'
    run.rule = ('PairGen pairs (identical, substituted, one-attribute edits, re-ordered dicts) x option pairs; TLC checks reflexivity / symmetry / '
                'SpecEq => equal documented hash key on all of them; on the real code ==, !=, hash, set/dict membership are judged against '
                'SpecEq for every pair and for seven construction routes of the same structure (unflatten-reflatten, transform, pickle, '
                'compose-with-leaf, broadcast-with-self, children-rebuild); cross-namespace / cross-mode pairs are formed by flattening the '
                'same tree under two option sets; non-trivial = pairs that are equal although not identical arrays, or differ in one attribute')
    bounds = [('PA', 4, 2, 2), ('PB', 3, 2, 2)] if quick else [('PA', 5, 2, 2), ('PB', 4, 2, 2)]
    rng = random.Random(run.seed)
    pairs = P.pair_model_phase(run, bounds, ['PInvC06'])
    cap = 5000 if quick else 200000
    if len(pairs) > cap:
        rng.shuffle(pairs)
        run.extra['generated_pairs'] = len(pairs)
        pairs = pairs[:cap]
    n, cases = P.run_pairs(run, 's2c', pairs, ['eq'], 1 if quick else 3, rng)
    run.evaluations += n
    _count(run, cases)
    rp = P.random_pairs(run.seed + 11, 2000 if quick else 30000)
    n, cases = P.run_pairs(run, 'c2s', rp, ['eq'], 1 if quick else 2, rng)
    run.evaluations += n
    _count(run, cases)
    # the same tree under two option sets (namespaces '' / registered / unknown, dict-order modes, none_is_leaf)
    trees = F.random_trees(run.seed + 12, 600 if quick else 8000, max_nodes=12)
    items = [{'t': t, 'cfgs': [P.PAIR_CFGS[(i * 3) % len(P.PAIR_CFGS)], P.PAIR_CFGS[(i * 3 + 1 + i % 7) % len(P.PAIR_CFGS)]]}
             for i, t in enumerate(trees)]
    run.evaluations += F.drive_and_judge(run, 'xopt', items, ['xopt'], driver='harness.drivers.d_xopt')
    run.exhaustive = False
    run.extra['bounds'] = [list(b) for b in bounds]


def _count(run, cases):
    for c in cases:
        if c['eq']['ab'] and c['sa'] != c['sb'] or (not c['eq']['ab'] and len(c['sa']['nodes']) == len(c['sb']['nodes'])):
            run.nontrivial.add(json.dumps([c['sa'], c['sb']], sort_keys=True))
