"""C04 - paths and accessors address exactly the leaves."""
import random
from harness.checks import treefam as F

EPS = ['tree_flatten_with_accessor', 'tree_accessors', 'tree_flatten_with_path']


def main(run):
    quick = run.tier == 'quick'
    run.rule = ('TLC checks on every TreeGen tree that Access(tree, path_i) is leaf i, that paths are distinct and prefix-free and that typed '
                'paths project to paths; the real accessors of every dumped / random tree are applied to the real tree (identity of the '
                'result logged), split at every position, compared across the three routes, codified and evaluated; TLC judges entry '
                'typing (entry class, node type, kind, field names) against the A4 table; non-trivial = at least one path of length >= 2')
    bounds = [('A', 4, 2, 2), ('B2', 3, 2, 2), ('B1', 3, 2, 2)] if quick else [('A', 5, 2, 2), ('B1', 4, 3, 3), ('B2', 4, 2, 2), ('K', 4, 3, 3)]
    rng = random.Random(run.seed)
    trees, _ = F.model_phase(run, bounds, ['InvC04'])
    trees = F.cap(trees, 5000 if quick else 40000, rng, run)
    deep = lambda t: any(c['ch'] for c in t['ch'])  # noqa: E731
    items = [{'t': t, 'cfgs': F.rotate_cfgs(i, rng, 2 if quick else 3), 'eps': EPS} for i, t in enumerate(trees)]
    for t in trees:
        if deep(t):
            run.nontrivial.add(F.tree_key(t))
    run.evaluations += F.drive_and_judge(run, 's2c', items, ['flatten', 'acclaws'])
    rt = F.random_trees(run.seed + 3, 2000 if quick else 12000)
    items = [{'t': t, 'cfgs': F.rotate_cfgs(i, rng, 2 if quick else 3), 'eps': EPS} for i, t in enumerate(rt)]
    for t in rt:
        if deep(t):
            run.nontrivial.add(F.tree_key(t))
    run.evaluations += F.drive_and_judge(run, 'c2s', items, ['flatten', 'acclaws'])
    run.exhaustive = False
    run.extra['bounds'] = [list(b) for b in bounds]
