"""C05 - tree_map family: once per leaf, in order, aligned arguments; traverse / walk."""
import json, os, random
from harness import tla
from harness.checks import pairfam as P, treefam as F


def main(run):
    quick = run.tier == 'quick'
    run.rule = ('PairGen pairs <<t, rest>> (true suffixes, accepted dict-kind / key-order / maxlen variations, one-node near misses) with 0..3 '
                'rests; TLC checks the prefix laws that make the alignment well defined; on the real code a recording function is mapped with '
                'all six tree_map variants, traverse and walk, and TLC judges the call log (count, order, first argument identity, rest '
                'subtrees = FlattenUpTo, path / accessor argument), the result tree, the identity and functor laws, and "ValueError before '
                'any call" for non-suffix rests; non-trivial = at least one rest and at least two leaves')
    bounds = [('PA', 4, 2, 2), ('PB', 3, 2, 2)] if quick else [('PA', 5, 2, 2), ('PB', 4, 2, 2)]
    rng = random.Random(run.seed)
    pairs = P.pair_model_phase(run, bounds, ['PInvC07'])
    cap = 4000 if quick else 150000
    if len(pairs) > cap:
        rng.shuffle(pairs)
        run.extra['generated_pairs'] = len(pairs)
        pairs = pairs[:cap]
    pairs += P.random_pairs(run.seed + 17, 1500 if quick else 30000)
    items = []
    for i, (a, b) in enumerate(pairs):
        shape = i % 5
        b2 = json.loads(json.dumps(b)); P.relabel(b2, 40000)
        a2 = json.loads(json.dumps(a)); P.relabel(a2, 60000)
        rests = [[b], [], [b, a2], [a2, b, b2], [b]][shape]
        cfgs = [F.CFGS[(i * 7) % len(F.CFGS)]] if i % 3 == 0 else [P.PAIR_CFGS[(i * 5) % len(P.PAIR_CFGS)]]
        items.append({'a': a, 'rests': rests, 'cfgs': cfgs})
        if rests and F.tree_size(a) > 2:
            run.nontrivial.add(json.dumps([a, rests], sort_keys=True))
    wd = os.path.join(tla.WORK, f'{run.pid}-map')
    os.makedirs(wd, exist_ok=True)
    inp, outp = os.path.join(wd, 'work.ndjson'), os.path.join(wd, 'cases.in.ndjson')
    F.write_work(inp, items)
    p = run.drive('harness.drivers.d_map', [inp, outp])
    if p.returncode == 0:
        cases = [json.loads(l) for l in open(outp) if '"sa_err"' not in l]
        fails = run.judge(cases, 'map')
        for idx, clauses in fails:
            run.violation({'kind': 'judge', 'op': 'map', 'clauses': clauses, 'case': cases[idx]},
                          f'map: real optree disagrees with the specification on {clauses}')
        for c in cases[:2]:
            run.sample({'op': 'map', 'a': c['a'], 'rests': c['rests']})
        run.evaluations += len(cases)
        os.remove(outp)
    run.exhaustive = False
    run.extra['bounds'] = [list(b) for b in bounds]
