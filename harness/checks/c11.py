"""C11 - pickling a treespec preserves it exactly (same process, fresh process, registry histories of the loader)."""
import json, os, random, subprocess
from harness import tla
from harness.checks import treefam as F
from harness import known  # noqa: F401


def main(run):
    quick = run.tier == 'quick'
    run.rule = ('TLC checks on every TreeGen tree and every sub-world of the registry that Unpickle(Pickle(s)) is s (all fields, incl. those '
                'outside ==) and the freshly flattened treespec, or an error exactly when a custom type is unknown to the loader; real '
                'treespecs are pickled with every protocol, loaded in the same process (also copy / deepcopy / __setstate__) and in fresh '
                'interpreters that replay six registry histories (same, missing in namespace, missing globally, only another namespace, '
                're-registered, shadowing namespace missing); TLC judges exact state, ==, hash, repr, paths, accessors, entries, children, '
                'unflatten; malformed states are sampled (single-field corruptions) in a child process; non-trivial = treespec with a custom '
                'node, a dict kind with original keys, or a non-empty namespace')
    bounds = [('A', 3, 2, 2), ('B2', 3, 2, 2), ('B1', 3, 2, 2)] if quick else [('A', 4, 2, 2), ('B1', 4, 2, 2), ('B2', 4, 2, 2)]
    rng = random.Random(run.seed)
    trees, _ = F.model_phase(run, bounds, ['InvC11'])
    trees = F.cap(trees, 1500 if quick else 8000, rng, run)
    trees += F.random_trees(run.seed + 31, 700 if quick else 3000, max_nodes=16)
    items = [{'t': t, 'cfgs': F.rotate_cfgs(i, rng, 1 if quick else 2)} for i, t in enumerate(trees)]
    for t in trees:
        if any(s['k'] in ('custom', 'dict', 'ddict') for s in F.subtrees(t)):
            run.nontrivial.add(F.tree_key(t))
    wd = os.path.join(tla.WORK, f'{run.pid}-pk')
    os.makedirs(wd, exist_ok=True)
    inp, blobs, ca = (os.path.join(wd, x) for x in ('work.ndjson', 'blobs.ndjson', 'casesA.ndjson'))
    F.write_work(inp, items)
    p = run.drive('harness.drivers.d_pickle', ['dump', inp, blobs, ca])
    if p.returncode != 0:
        return
    worlds = ['same', 'missing-a2', 'missing-global1', 'only-b3', 'rereg', 'a3-missing-b3-present']
    procs = []
    for w in worlds:
        out = os.path.join(wd, f'casesB-{w}.ndjson')
        procs.append((w, out, subprocess.Popen(['/venv/bin/python', '-m', 'harness.drivers.d_pickle', 'load', w, blobs, out],
                                               cwd=run.pyenv()['PYTHONPATH'].split(os.pathsep)[1], env=run.pyenv(), stderr=subprocess.PIPE, text=True)))
    batches = [('same-process', ca)]
    for w, out, pr in procs:
        err = pr.communicate()[1]
        if pr.returncode != 0:
            if pr.returncode < 0:
                run.violation({'kind': 'crash', 'where': f'loading process {w}', 'rc': pr.returncode, 'stderr': err[-600:]},
                              f'the loading process {w} crashed (rc={pr.returncode})')
            else:
                run.machinery(f'loading process {w} failed: {err[-1500:]}')
            continue
        batches.append((w, out))
    run.extra['loading_worlds'] = worlds
    first = True
    for label, path in batches:              # judged batch by batch: the cases are large
        cases = [json.loads(l) for l in open(path)]
        fails = run.judge(cases, 'pk-' + label)
        for idx, clauses in fails:
            run.violation({'kind': 'judge', 'op': cases[idx]['op'], 'clauses': clauses, 'case': cases[idx]},
                          f'pickle[{label}]: real optree disagrees with the specification on {clauses}')
        run.evaluations += len(cases)
        if first:
            for c in cases[:2]:
                run.sample({'op': 'pickle', 't': c['t'], 'world': c['world'], 'routes': [l['via'] for l in c['loads']]})
            first = False
        del cases
    # malformed states (sampled): must raise or yield a self-consistent treespec, never crash
    mo = os.path.join(wd, 'malformed.json')
    pm = run.drive('harness.drivers.d_pickle', ['malformed', mo], check=False)
    if pm.returncode != 0:
        run.violation({'kind': 'crash', 'op': 'setstate-malformed', 'rc': pm.returncode, 'stderr': pm.stderr[-800:]},
                      f'__setstate__ on a corrupted state killed the interpreter (rc={pm.returncode})')
    else:
        run.extra['malformed_states'] = json.load(open(mo))
        run.evaluations += sum(run.extra['malformed_states'].values())
    run.exhaustive = False
    run.extra['bounds'] = [list(b) for b in bounds]
