"""C07 - prefix matching is exact and its three implementations agree."""
import json, random
from harness.checks import pairfam as P, treefam as F


def main(run):
    quick = run.tier == 'quick'
    run.rule = ('PairGen: for every TreeGen forest <<a,s>> the pairs <<a,a>>, <<a,s>>, <<a,a[leaf:=s]>>, <<a,a[one local edit]>> and each with all '
                'dicts of b re-ordered; TLC checks the prefix laws (three definitions agree, partition, strictness, antisymmetry) on all of '
                'them; every dumped pair and random edited pairs go through is_prefix/is_suffix/<,<=,>,>=, flatten_up_to, prefix_errors and '
                'tree_map-with-rest on the real code and TLC judges each against SpecPrefix / FlattenUpTo; non-trivial = pairs where a is a '
                'prefix of b with a dict re-ordering, or a near-miss (not a prefix although the root kinds match)')
    bounds = [('PA', 4, 2, 2), ('PB', 3, 2, 2)] if quick else [('PA', 5, 2, 2), ('PB', 4, 2, 2)]
    rng = random.Random(run.seed)
    # layer M: the engine's array walk with sibling re-ordering in a working copy (PrefixM.tla) refines SpecPrefix ...
    from harness.checks import treecfg
    from harness import tla
    treecfg.ALPHABETS['PM'] = ('MC_PrefixM', ['tuple', 'dict', 'odict'], [1], [0], [0])
    for n, flag in ((4 if quick else 6, 'FALSE'), (6, 'TRUE')):
        mod, cfg = treecfg.cfg('PM', n, 2, 2, ['PInvPrefixM'], ns=('',))
        cfg = cfg.replace('SPECIFICATION Spec', 'SPECIFICATION PSpec').replace('CONSTANTS', 'CONSTANTS\n  CopyFromOriginal = ' + flag)
        r = run.tlc(f'prefixM-{flag}', mod, cfg, timeout=3000)
        if flag == 'FALSE' and r.violated:
            bad = tla.prints(r.out, 'BADPAIR')
            run.violation({'kind': 'model', 'invariant': r.violated, 'pair': [P.F.thaw(bad[0][2]), P.F.thaw(bad[0][3])] if bad else None},
                          'TLC: the code-shaped prefix walk (PrefixM) does not refine SpecPrefix')
        if flag == 'TRUE':
            # ... and the as-found variant (copying the permuted subtrees from the original array) must be refuted (vacuity guard)
            run.extra['as_found_prefix_walk_refuted_by_TLC'] = r.violated
            if r.violated != 'PInvPrefixM':
                run.machinery('vacuity guard: PrefixM with CopyFromOriginal=TRUE should violate PInvPrefixM')
    pairs = P.pair_model_phase(run, bounds, ['PInvC07'])
    if len(pairs) > (6000 if quick else 250000):
        rng.shuffle(pairs)
        run.extra['generated_pairs'] = len(pairs)
        pairs = pairs[:6000 if quick else 250000]
    n, cases = P.run_pairs(run, 's2c', pairs, ['prefix'], 1 if quick else 3, rng)
    run.evaluations += n
    _count(run, cases)
    rp = P.random_pairs(run.seed + 7, 2500 if quick else 40000)
    n, cases = P.run_pairs(run, 'c2s', rp, ['prefix'], 1 if quick else 2, rng)
    run.evaluations += n
    _count(run, cases)
    run.exhaustive = False
    run.extra['bounds'] = [list(b) for b in bounds]


def _count(run, cases):
    for c in cases:
        p = c['prefix']['is_prefix']
        reordered = any(n['kind'] in (5, 7, 8) and len(n['keys']) > 1 for n in c['sa']['nodes']) and c['sa'] != c['sb']
        if p['err'] == '' and ((p['v'] and reordered) or (not p['v'] and c['sa']['nodes'][-1]['kind'] == c['sb']['nodes'][-1]['kind'])):
            run.nontrivial.add(json.dumps([c['sa'], c['sb']], sort_keys=True))
