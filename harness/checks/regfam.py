"""Shared machinery of C12 / C13: RegHist (TLC) -> histories -> real optree (d_reg) -> TraceRegistry (TLC)."""
import glob, json, os, random, re, shutil

from harness import tla
from harness.checks import treefam as F

TMPL = open(os.path.join(tla.SPEC, 'MC_RegHist.cfg.tmpl')).read()


def cfg(family, length, depth=3):
    return TMPL.replace('@DEPTH@', str(depth)).replace('@LEN@', str(length)).replace('@FAMILY@', family)


def call_of(rec):
    return {'op': rec['op'], 'ty': rec['ty'], 'ns': rec['ns'], 'pet': rec['pet'], 'wae': rec['wae']}


def exhaustive_histories(run, family, length, depth=3, cap=None, seed=0):
    r = run.tlc(f'hist-{family}{length}', 'RegHist', cfg(family, length, depth), dump=True, timeout=3000)
    if r.violated:
        run.violation({'kind': 'model', 'invariant': r.violated, 'family': family, 'trace': [F.thaw(s) for _, s in tla.error_trace(r.out)][-2:]},
                      f'TLC: {r.violated} fails on the Registry specification itself')
    hs = []
    rng = random.Random(seed)
    seen = 0
    if r.dump and os.path.exists(r.dump):
        for st in tla.read_dump(r.dump):
            h = st['hist']
            if len(h) != length:
                continue
            seen += 1
            if cap is None or len(hs) < cap:
                hs.append([call_of(F.thaw(x)) for x in h])
            else:                                   # reservoir sampling: every maximal history equally likely
                j = rng.randrange(seen)
                if j < cap:
                    hs[j] = [call_of(F.thaw(x)) for x in h]
        os.remove(r.dump)
    if cap is not None and seen > cap:
        run.extra[f'histories_{family}_generated'] = seen
        run.extra[f'histories_{family}_replayed'] = cap
    shutil.rmtree(os.path.join(r.wd, 'meta'), ignore_errors=True)
    return hs


def simulated_histories(run, family, num, depth_len, seed, ctx_depth=4):
    """tlc -simulate: random behaviours of RegHist; the final state's `hist` is the behaviour"""
    wd = os.path.join(tla.WORK, f'{run.pid}-sim-{family}')
    shutil.rmtree(wd, ignore_errors=True)
    os.makedirs(wd)
    c = cfg(family, depth_len, ctx_depth)
    r = run.tlc(f'sim-{family}', 'RegHist', c, simulate=f'file={wd}/b,num={num}', depth=depth_len + 1, seed=seed, workers=1, timeout=1200)
    hs = []
    for f in sorted(glob.glob(f'{wd}/b*')):
        txt = open(f).read()
        blocks = re.findall(r'STATE_\d+ ==\s*(.*?)(?=\n\nSTATE_|\n\n\\\*|\n=+|\Z)', txt, flags=re.S)
        if not blocks:
            continue
        m = re.search(r'/\\ hist = (.*?)(?=\n/\\ \w+ = |\Z)', blocks[-1], flags=re.S)
        if m:
            h = tla.parse_tla(m.group(1))
            hs.append([call_of(F.thaw(x)) for x in h])
    shutil.rmtree(wd, ignore_errors=True)
    return hs


def random_histories(family, count, length, seed):
    """long seeded random histories written directly (code -> spec direction: the judge is still TraceRegistry)"""
    rng = random.Random(seed)
    out = []
    for _ in range(count):
        h, depth = [], 0
        for _ in range(rng.randint(length // 2, length)):
            fam = family if family != 'both' else rng.choice(['reg', 'ctx'])
            if fam == 'reg':
                op = rng.choice(['register', 'register', 'unregister'])
                ty = rng.choice([1, 1, 2, 3, 3, 4, 5, 6])
                ns = rng.choice(['GLOBAL', 'a', 'a', 'b', 'b', '', 'NONSTR'])
                h.append({'op': op, 'ty': ty, 'ns': ns, 'pet': 'ok' if rng.random() < 0.9 or op == 'unregister' else 'bad',
                          'wae': op == 'register' and rng.random() < 0.4})
            else:
                op = rng.choice(['enter', 'enter', 'exit', 'raise'])
                if op == 'enter':
                    ns = rng.choice(['GLOBAL', 'a', 'b', 'a', 'b', '', 'NONSTR'])
                    h.append({'op': 'enter', 'ty': 0, 'ns': ns, 'pet': rng.choice(['T', 'T', 'F']), 'wae': False})
                    if ns in ('GLOBAL', 'a', 'b'):
                        depth += 1
                elif depth > 0:
                    n = 1 if op == 'exit' else rng.randint(1, depth)
                    h.append({'op': op, 'ty': n, 'ns': '', 'pet': 'ok', 'wae': False})
                    depth -= n
        if h:
            out.append(h)
    return out


def replay_and_validate(run, label, histories, pre=None):
    if not histories:
        return 0
    wd = os.path.join(tla.WORK, f'{run.pid}-{label}')
    os.makedirs(wd, exist_ok=True)
    inp, outp = os.path.join(wd, 'hist.ndjson'), os.path.join(wd, 'traces.ndjson')
    with open(inp, 'w') as fh:
        for i, h in enumerate(histories):
            fh.write(json.dumps({'tid': i + 1, 'calls': h, 'pre': (i + 1) % 2 == 1 if pre is None else pre}) + '\n')
    p = run.drive('harness.drivers.d_reg', [inp, outp])
    if p.returncode != 0:
        return 0
    lines = open(outp).read().splitlines()
    # shard the traces over parallel TLC validators
    shards = max(1, min(16, len(lines) // 50))
    per = (len(lines) + shards - 1) // shards
    import concurrent.futures
    cfgt = open(os.path.join(tla.SPEC, 'TraceRegistry.cfg')).read()
    fails, done = {}, set()

    def one(k):
        part = lines[k * per:(k + 1) * per]
        if not part:
            return None
        path = os.path.join(wd, f'shard{k}.ndjson')
        open(path, 'w').write('\n'.join(part) + '\n')
        return tla.run_tlc(f'{run.pid}-{label}-tv{k}', 'TraceRegistry', cfgt, env={'TRACES': path}, workers=1, timeout=3000, heap='3g')
    with concurrent.futures.ThreadPoolExecutor(shards) as ex:
        for r in ex.map(one, range(shards)):
            if r is None:
                continue
            if not r.ok:
                run.machinery(f'trace validation {label}: TLC failed: {r.error}; see {r.wd}/out.txt')
                continue
            for t in tla.prints(r.out, 'FAIL'):
                fails[t[1]] = (t[2], list(t[3]))
            for t in tla.prints(r.out, 'DONE'):
                done.add(t[1])
            shutil.rmtree(r.wd, ignore_errors=True)
    n = len(lines)
    missing = set(range(1, n + 1)) - done - set(fails)
    if missing:
        run.machinery(f'trace validation {label}: {len(missing)} traces neither accepted nor rejected (e.g. {sorted(missing)[:5]})')
    traces = [json.loads(l) for l in lines]
    for tid, (idx, clauses) in sorted(fails.items()):
        tr = traces[tid - 1]
        run.violation({'kind': 'trace', 'clauses': clauses, 'event_index': idx, 'calls': histories[tid - 1][:idx], 'event': tr['ev'][idx - 1],
                       'prebuilt_context_managers': tid % 2 == 1 if pre is None else pre},
                      f'registry trace rejected at event {idx} ({tr["ev"][idx - 1]["op"]}): {clauses}')
    run.traces += len(done)
    for h in histories[:2]:
        run.sample({'history': h})
    shutil.rmtree(wd, ignore_errors=True)
    return n
