"""C15 - a failing user callback fails the operation cleanly (fault enumeration over the Engine machine's behaviours)."""
import json, os, shutil
from harness import tla
from harness.checks import treefam as F


def scenarios(seed, n):
    trees = [t for t in F.random_trees(seed + 41, 3000, max_nodes=12)
             if any(s['k'] == 'custom' and s['cls'] in (1, 2, 3) for s in F.subtrees(t)) and 3 <= F.tree_size(t) <= 10]
    out = []
    picks = [0, 21, 47, 63, 85, 100, 5, 33, 71, 92, 13, 58, 77, 104, 119, 26, 39, 44, 66, 88]
    for i, t in enumerate(trees[:n]):
        c = dict(F.CFGS[picks[i % len(picks)]])
        if i % 2 == 0:                        # make sure the predicate callback is exercised
            c.update(haspred=True, pk=['tuple'], pi=[2])
        out.append({'t': t, 'cfg': c})
    return out


def main(run):
    quick = run.tier == 'quick'
    run.rule = ('Engine.tla (small-step machine of flatten and tree_map, one action per segment between callback points) is run by TLC over '
                'scenario trees x {flatten, map} x every fault index 0..K: invariants FaultClean / NoMissedFault / RefinesD and termination; '
                'every terminal state (scenario, op, fault index, expected status) is replayed through 8 flatten entry points / 3 map '
                'variants on the real code with the fault injected at that callback; the recorded callback trace is validated by TLC '
                '(TraceEngine) and the Python side checks: same exception object, no partial result, zero reference-count delta on all '
                'leaves / containers / treespec / callables, registry and mode state unchanged, hash/repr of an existing treespec unchanged, '
                'operation works afterwards; a catalogue of 17 operations x 4 scenarios (incl. hooked key __lt__/__hash__/__eq__ and '
                'metadata __eq__/__hash__/__repr__) is fault-enumerated at every callback index; non-trivial = runs with 1 <= k <= K')
    S = scenarios(run.seed, 6 if quick else 20)
    maxf = 14 if quick else 22
    text = '---- MODULE MC_Engine ----\nEXTENDS Engine\nMCScenarios == {' + ',\n '.join(tla.to_tla(s) for s in S) + '}\n' \
           'Termination == <>(status # "run")\nFairSpec == ESpec /\\ WF_evars(ENext)\n====\n'
    cfg = f'SPECIFICATION FairSpec\nCONSTANTS\n  Scenarios <- MCScenarios\n  Ops = {{"flatten", "map"}}\n  MaxFault = {maxf}\n' \
          'INVARIANT EInv\nPROPERTY Termination\nCHECK_DEADLOCK FALSE\n'
    r = run.tlc('engine', 'MC_Engine', cfg, extra_modules={'MC_Engine': text}, dump=True, timeout=3000)
    if r.violated:
        run.violation({'kind': 'model', 'invariant': r.violated}, f'TLC: {r.violated} fails on the Engine machine')
    terms = {}
    if r.dump and os.path.exists(r.dump):
        for st in tla.read_dump(r.dump):
            if st['status'] != 'run' and st['status'] != 'recursion':
                key = json.dumps([F.thaw(st['sc']), st['op'], st['faultAt']], sort_keys=True)
                terms[key] = {'sc': F.thaw(st['sc']), 'op': st['op'], 'fault': st['faultAt'], 'status': st['status']}
        os.remove(r.dump)
    shutil.rmtree(os.path.join(r.wd, 'meta'), ignore_errors=True)
    items = list(terms.values())
    wd = os.path.join(tla.WORK, f'{run.pid}-flt')
    os.makedirs(wd, exist_ok=True)
    inp, outp = os.path.join(wd, 'work.ndjson'), os.path.join(wd, 'runs.ndjson')
    F.write_work(inp, items)
    p = run.drive('harness.drivers.d_fault', ['engine', inp, outp], check=False)
    if p.returncode != 0:
        run.violation({'kind': 'crash', 'rc': p.returncode, 'stderr': p.stderr[-600:]}, f'fault replay killed the interpreter (rc={p.returncode})')
        return
    runs = [json.loads(l) for l in open(outp)]
    for i, rr in enumerate(runs):
        rr['tid'] = i + 1
    # Python-side verdicts (identity, refcounts, state)
    for rr in runs:
        bad = [k for k, v in rr['py'].items() if (v is False) or (k == 'refcount_delta' and v != 0)]
        if rr['status'] != rr['model_status']:
            bad.append(f'status {rr["status"]} (Engine: {rr["model_status"]})')
        if bad:
            run.violation({'kind': 'fault', 'entry': rr['entry'], 'fault': rr['fault'], 'problems': bad, 'sc': rr['sc'], 'ev': rr['ev']},
                          f'{rr["entry"]} with a fault at callback {rr["fault"]}: {bad}')
        if rr['fault'] > 0 and rr['status'] == 'failed':
            run.nontrivial.add(json.dumps([rr['entry'], rr['fault'], rr['sc']['t']], sort_keys=True))
    # the callback traces, validated by TLC against the machine
    tpath = os.path.join(wd, 'traces.ndjson')
    shards = 16
    per = (len(runs) + shards - 1) // shards
    import concurrent.futures
    cfgt = open(os.path.join(tla.SPEC, 'TraceEngine.cfg')).read()
    done = set()

    def one(k):
        part = runs[k * per:(k + 1) * per]
        if not part:
            return None
        path = os.path.join(wd, f'tr{k}.ndjson')
        with open(path, 'w') as fh:
            for rr in part:
                fh.write(json.dumps({'tid': rr['tid'], 'sc': rr['sc'], 'op': rr['op'], 'fault': rr['fault'], 'status': rr['status'], 'ev': rr['ev']}) + '\n')
        return tla.run_tlc(f'{run.pid}-te{k}', 'TraceEngine', cfgt, env={'TRACES': path}, workers=1, timeout=3000, heap='3g')
    with concurrent.futures.ThreadPoolExecutor(shards) as ex:
        for rr in ex.map(one, range(shards)):
            if rr is None:
                continue
            if not rr.ok:
                run.machinery(f'TraceEngine failed: {rr.error}; see {rr.wd}/out.txt')
                continue
            for t in tla.prints(rr.out, 'DONE'):
                done.add(t[1])
            shutil.rmtree(rr.wd, ignore_errors=True)
    for rr in runs:
        if rr['tid'] not in done:
            run.violation({'kind': 'trace', 'entry': rr['entry'], 'fault': rr['fault'], 'status': rr['status'], 'sc': rr['sc'], 'ev': rr['ev']},
                          f'callback trace of {rr["entry"]} (fault at {rr["fault"]}) is not a behaviour of the Engine machine')
    run.traces += len(done)
    run.evaluations += len(runs)
    for rr in runs[:2]:
        run.sample({'entry': rr['entry'], 'fault': rr['fault'], 'status': rr['status'], 'callbacks': rr['ev'][:8]})
    # catalogue
    co = os.path.join(wd, 'cat.json')
    pc = run.drive('harness.drivers.d_fault', ['catalogue', co], check=False)
    if pc.returncode != 0:
        run.violation({'kind': 'crash', 'where': 'catalogue', 'rc': pc.returncode, 'stderr': pc.stderr[-600:]},
                      f'fault catalogue killed the interpreter (rc={pc.returncode})')
    else:
        cat = json.load(open(co))
        run.extra['catalogue'] = {'fault_runs': cat['faults'], 'callbacks_per_operation': cat['by_op']}
        run.evaluations += cat['faults']
        for b in cat['bad']:
            run.violation({'kind': 'catalogue', **b}, f'{b["op"]} on scenario {b["scenario"]}, fault at callback {b["k"]}: {b["problem"]}')
        for i in range(cat['faults']):
            pass
        run.extra['catalogue_fault_runs'] = cat['faults']
    shutil.rmtree(wd, ignore_errors=True)
    run.exhaustive = True
    run.extra['exhaustive_part'] = f'every fault index 0..K on {len(S)} scenario trees x {{flatten, map}} x all entry points; every callback index of the catalogue'
