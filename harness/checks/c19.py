"""C19 - optree dataclasses and optree partial are faithful pytree nodes."""
import json, os, shutil
from harness import tla
from harness.checks import treefam as F


def main(run):
    quick = run.tier == 'quick'
    n = 2 if quick else 3
    run.rule = (f'LayoutGen.tla: every sequence of <= {n} field descriptors (init x pytree_node x kw_only x default, restricted to what Python '
                'allows) with the layout rule; TLC checks the algebra of the rule (children / metadata / non-init partition the fields, '
                'everything __init__ needs is flattened, declaration order kept); every layout is built as a real class through the '
                'decorator, make_dataclass and a decorated subclass of a plain dataclass, x 8 class-flag sets (frozen, order, unsafe_hash, '
                'slots, kw_only, eq=False, frozen+slots), and TLC judges children / metadata / entries / round trip with __post_init__ '
                're-run / namespace isolation / rejections / equality with the dataclasses.dataclass twin; optree.functools.partial over '
                'nested plain and optree partials with pytree arguments; non-trivial = layouts with at least one child and one metadata field')
    cfg = f'SPECIFICATION LSpec\nCONSTANTS\n  MaxFields = {n}\nINVARIANT LayoutInv\nCHECK_DEADLOCK FALSE\n'
    r = run.tlc('layout', 'LayoutGen', cfg, dump=True, timeout=1200)
    if r.violated:
        run.violation({'kind': 'model', 'invariant': r.violated}, f'TLC: {r.violated} fails on LayoutGen')
    layouts = []
    if r.dump and os.path.exists(r.dump):
        for st in tla.read_dump(r.dump):
            layouts.append([F.thaw(d) for d in st['layout']])
        os.remove(r.dump)
    shutil.rmtree(os.path.join(r.wd, 'meta'), ignore_errors=True)
    wd = os.path.join(tla.WORK, f'{run.pid}-dc')
    shutil.rmtree(wd, ignore_errors=True)
    os.makedirs(wd)
    inp, outp = os.path.join(wd, 'layouts.ndjson'), os.path.join(wd, 'cases.ndjson')
    F.write_work(inp, [{'layout': l} for l in layouts])
    p = run.drive('harness.drivers.d_dc', [inp, outp])
    if p.returncode == 0:
        cases = [json.loads(l) for l in open(outp)]
        for c in cases:
            if c['op'] == 'dataclass' and any(d['node'] and d['init'] for d in c['layout']) and any(d['init'] and not d['node'] for d in c['layout']):
                run.nontrivial.add(json.dumps(c['layout']))
        fails = run.judge(cases, 'dc')
        for idx, clauses in fails:
            run.violation({'kind': 'judge', 'op': cases[idx]['op'], 'clauses': clauses, 'case': cases[idx]},
                          f'{cases[idx]["op"]}: real optree disagrees with the specification on {clauses}')
        run.evaluations += len(cases)
        for c in cases[:2]:
            run.sample(c)
    shutil.rmtree(wd, ignore_errors=True)
    run.exhaustive = True
    run.extra['exhaustive_part'] = f'all layouts of <= {n} fields x 8 flag sets x 2-3 construction routes; 36 partial configurations'
