"""C03 - all traversal entry points agree with each other (and with layer D), including error parity and the depth limit."""
import json, os, random
from harness import tla
from harness.checks import treefam as F
from harness.checks import iterfam as I

FAULTS = ('tuplelen', 'childiter', 'entlen', 'entiter', 'entshort')


def main(run):
    quick = run.tier == 'quick'
    run.rule = ('every TreeGen tree (incl. alphabet F: one malformed custom node per forest, at every position) and seeded random trees '
                '(one in three with a single injected malformed custom node) go through all eight entry points + tree_is_leaf / all_leaves / '
                'reductions under rotating options; TLC compares each output with layer D and the outputs with each other; depth cases '
                'at MAX_RECURSION_DEPTH-2..+2 for 9 node kinds are bound to the model at MaxDepth=4 by offset; IterM: all programs of 3 (quick) / 4 calls '
                'creating / stepping iterators while mutating the heap, changing dict-order modes and the registry + simulated and random '
                'longer ones are replayed and every call judged by IterSem!Step (tree_leaves and clean iterators: law; suspended-and-disturbed '
                'iterators: model drift only); non-trivial = internal node / program that steps an iterator after a change')
    bounds = [('A', 4, 2, 2), ('B2', 3, 2, 2), ('F', 4, 2, 2)] if quick else [('A', 5, 2, 2), ('B1', 4, 3, 3), ('B2', 4, 2, 2), ('F', 5, 2, 2)]
    rng = random.Random(run.seed)
    trees, _ = F.model_phase(run, bounds, ['InvC03'], faults=FAULTS)
    trees = F.cap(trees, 4000 if quick else 40000, rng, run)
    items = [{'t': t, 'cfgs': F.rotate_cfgs(i, rng, 2 if quick else 3)} for i, t in enumerate(trees)]
    for t in trees:
        if F.nontrivial_tree(t):
            run.nontrivial.add(F.tree_key(t))
    run.extra['faulty_trees_replayed'] = sum(1 for t in trees if any(s['fault'] for s in F.subtrees(t)))
    run.evaluations += F.drive_and_judge(run, 's2c', items, ['flatten', 'c03extra'])
    rt = F.random_trees(run.seed + 2, 1500 if quick else 12000)
    for i, t in enumerate(rt):
        if i % 3 == 0:
            F.inject_fault(t, rng, FAULTS)
    run.extra['faulty_trees_replayed'] += sum(1 for t in rt if any(s['fault'] for s in F.subtrees(t)))
    items = [{'t': t, 'cfgs': F.rotate_cfgs(i, rng, 2 if quick else 3)} for i, t in enumerate(rt)]
    for t in rt:
        run.nontrivial.add(F.tree_key(t))
    run.evaluations += F.drive_and_judge(run, 'c2s', items, ['flatten', 'c03extra'])
    run.evaluations += F.drive_and_judge(run, 'depth', [], ['depth'])
    # the lazy entry point as a stateful object: programs interleaving __next__ with mutations, mode and registry changes
    n = 0
    for fam, ln, cap in (('mut', 3, 6000), ('env', 3, 4000), ('pred', 3, 4000)) if quick else (('mut', 4, 120000), ('env', 4, 120000), ('pred', 4, 120000)):
        n += I.replay_and_judge(run, f'iter-{fam}', I.exhaustive_programs(run, fam, ln, cap=cap, seed=run.seed))
    n += I.replay_and_judge(run, 'iter-sim', I.simulated_programs(run, 'all', 150 if quick else 3000, 12, run.seed))
    n += I.replay_and_judge(run, 'iter-rnd', I.random_programs(2000 if quick else 40000, 40, run.seed + 5))
    run.evaluations += n
    run.extra['iterator_programs_replayed'] = n
    run.exhaustive = False
    run.extra['bounds'] = [list(b) for b in bounds]
