"""C13 - insertion-ordered dict mode is scoped to its namespace and with-block."""
import json
from harness.checks import regfam as R


def main(run):
    quick = run.tier == 'quick'
    run.rule = ('RegHist (family ctx): every well-nested sequence of enter(True|False, N) / exit / raise-through-n-blocks over N in '
                '{GLOBAL, a, b} (+ invalid namespaces) up to the bound; TLC checks the restoration action property on all; each sequence '
                'is replayed with real context managers (exceptional exits hand the exception to every enclosing block) and after every '
                'step the effective mode of every namespace is observed through nine entry points (tree_leaves, tree_iter, '
                'flatten_with_path, flatten_with_accessor, treespec_dict / defaultdict / from_collection, flatten_one_level, tree_paths), '
                'the own flags, get(dict) / get(defaultdict) / get()[dict], round trips and OrderedDict; TLC validates the trace; '
                'non-trivial = histories with False-inside-True or an exceptional exit through >= 2 blocks')
    L = 5 if quick else 6
    hs = R.exhaustive_histories(run, 'ctx', L, depth=3 if quick else 4, cap=None if quick else 40000, seed=run.seed)
    run.extra['exhaustive_history_length'] = L
    sim = R.simulated_histories(run, 'both', 200 if quick else 3000, 12, run.seed, ctx_depth=5)
    rnd = R.random_histories('both', 200 if quick else 4000, 40, run.seed + 1)
    for h in hs + sim + rnd:
        stack = []
        for c in h:
            if c['op'] == 'enter' and c['ns'] in ('GLOBAL', 'a', 'b'):
                if c['pet'] == 'F' and any(f == 'T' for f in stack):
                    run.nontrivial.add(json.dumps(h))
                stack.append(c['pet'])
            elif c['op'] in ('exit', 'raise'):
                if c['op'] == 'raise' and c['ty'] >= 2:
                    run.nontrivial.add(json.dumps(h))
                del stack[len(stack) - c['ty']:]
    run.evaluations += R.replay_and_validate(run, 'exh', hs)
    run.evaluations += R.replay_and_validate(run, 'sim', sim)
    run.evaluations += R.replay_and_validate(run, 'rnd', rnd)
    run.exhaustive = False
