"""C18 - the Python twins of engine logic give the same answers as the engine."""
import itertools, json, os, random, shutil
from harness import tla
from harness.checks import treefam as F


def main(run):
    quick = run.tier == 'quick'
    run.rule = ('ClassGen.tla: trait vectors (tuple subclass?, _fields in 6 shapes, _make / _asdict callable / not / absent) with the ground-truth '
                'rule, and a cache machine (address slots, capacity, weak-reference eviction) whose histories TLC enumerates (invariant: the '
                'answer is the truth in every reachable cache state; without eviction TLC produces the stale-address counterexample); every '
                'trait vector and every cache history is replayed with synthesised classes through the engine and the twin; thousands of '
                'transient classes exceed the cap and reuse addresses; TotalOrderSorted vs utils.total_order_sorted vs the engine on all key '
                'lists <= 4 of the mixed universe; tree_flatten_one_level vs entries/children/type/kind + unflatten_func on all one-level '
                'nodes of TreeGen and random trees; non-trivial = trait vectors on which some single trait decides the answer')
    # cache histories from TLC
    c = f'SPECIFICATION CSpec\nCONSTANTS\n  Slots = {{1, 2}}\n  Cap = 1\n  Evict = TRUE\n  MaxOps = {5 if quick else 7}\nINVARIANT AnswerIsTruth\nINVARIANT CacheOnlyLive\nCHECK_DEADLOCK FALSE\n'
    r = run.tlc('classgen', 'ClassGen', c, dump=True, timeout=1200)
    if r.violated:
        run.violation({'kind': 'model', 'invariant': r.violated}, f'TLC: {r.violated} fails on ClassGen')
    hists = []
    if r.dump and os.path.exists(r.dump):
        n = 0
        for st in tla.read_dump(r.dump):
            if st['nops'] == (5 if quick else 7):
                n += 1
                if (quick and n % 7) or (not quick and n % 11):       # a systematic sample of the maximal histories is replayed
                    continue
                hists.append({'tid': n, 'ops': [[o[0], o[1], F.thaw(o[2])] for o in st['hist']]})
        os.remove(r.dump)
    shutil.rmtree(os.path.join(r.wd, 'meta'), ignore_errors=True)
    c2 = c.replace('Evict = TRUE', 'Evict = FALSE')
    r2 = run.tlc('classgen-noevict', 'ClassGen', c2, timeout=600)
    run.extra['counterexample_without_eviction'] = r2.violated
    if not r2.violated:
        run.machinery('vacuity guard: the cache machine without eviction should violate CacheOnlyLive/AnswerIsTruth')
    wd = os.path.join(tla.WORK, f'{run.pid}-tw')
    shutil.rmtree(wd, ignore_errors=True)
    os.makedirs(wd)
    hp, co = os.path.join(wd, 'hist.ndjson'), os.path.join(wd, 'classes.ndjson')
    F.write_work(hp, hists)
    p = run.drive('harness.drivers.d_twin', ['classes', co, hp], extra_env={'VERIF_TRANSIENT': '6000' if quick else '30000'})
    cases = []
    if p.returncode == 0:
        for l in open(co):
            cse = json.loads(l)
            if cse['op'] == 'transient':
                run.extra['transient_classes'] = cse
                if cse['stale']:
                    run.violation({'kind': 'stale-cache', **cse}, f'{cse["stale"]} stale classifications among {cse["n"]} transient classes')
                if cse['address_reuses'] < 10:
                    run.machinery(f'vacuity: only {cse["address_reuses"]} address reuses observed')
            else:
                cases.append(cse)
                if cse['op'] == 'classify':
                    run.nontrivial.add(json.dumps(cse['traits'], sort_keys=True))
    # key lists: all arrangements of <= 4 (quick: <= 3) keys of the universe
    univ = [[0, 1], [0, 2], [1, 1], [1, 2], [2, 1], [3, 1], [3, 2], [4, 1], [4, 2], [5, 1], [5, 2]]
    items = []
    for n in range(0, 4 if quick else 5):
        for ks in itertools.permutations(univ, n):
            items.append({'keys': [list(k) for k in ks]})
    rng = random.Random(run.seed)
    if quick and len(items) > 700:
        rng.shuffle(items)
        items = items[:700]
    # directed: lists on which BOTH sorts fail after the first has already moved elements (3-4 sortable keys in random order plus
    # two unorderable keys of one class), weakly ordered keys that tie, tuple keys next to the integers they contain
    for _ in range(150 if quick else 1500):
        srt = rng.choice([[[0, v] for v in range(1, 6)], [[0, 1], [2, 1], [0, 3], [2, 2], [0, 2]], [[1, v] for v in range(1, 6)],
                          [[0, 1], [1, 1], [0, 2], [1, 2], [0, 3]], [[6, v] for v in range(0, 5)], [[7, v] for v in range(0, 5)],
                          [[0, 1], [7, 2], [0, 2], [7, 3], [7, 4]]])
        ks = rng.sample(srt, rng.randint(3, 4))
        tail = rng.choice([[[4, 1], [4, 2]], [[4, 1], [4, 2]], [[4, 1]], []])
        for t in tail:
            ks.insert(rng.randint(2, len(ks)) if rng.random() < 0.7 else rng.randint(0, len(ks)), t)
        items.append({'keys': [list(k) for k in ks]})
    run.extra['key_lists'] = len(items)
    # one-level nodes
    bounds = [('A', 3, 2, 2), ('B1', 3, 2, 2), ('B2', 3, 2, 2)] if quick else [('A', 4, 2, 2), ('B1', 4, 2, 2), ('B2', 4, 2, 2)]
    trees, _ = F.model_phase(run, bounds, ['InvC02'])
    trees = F.cap(trees, 2500 if quick else 30000, rng, run) + F.random_trees(run.seed + 51, 600 if quick else 10000, max_nodes=10)
    for i, t in enumerate(trees):
        items.append({'t': t, 'cfgs': F.rotate_cfgs(i, rng, 1 if quick else 3)})
    ip, op = os.path.join(wd, 'trees.ndjson'), os.path.join(wd, 'trees.out')
    F.write_work(ip, items)
    p = run.drive('harness.drivers.d_twin', ['trees', ip, op])
    if p.returncode == 0:
        for l in open(op):
            cse = json.loads(l)
            if cse['op'] == 'partial-order-twins':
                run.extra['partially_ordered_key_lists'] = cse
                if cse['disagreements']:
                    run.violation({'kind': 'twin-disagreement', **cse}, f'{cse["disagreements"]} disagreements between total_order_sorted and the engine on partially ordered keys')
            else:
                cases.append(cse)
    fails = run.judge(cases, 'tw')
    for idx, clauses in fails:
        run.violation({'kind': 'judge', 'op': cases[idx]['op'], 'clauses': clauses, 'case': cases[idx]},
                      f'{cases[idx]["op"]}: the twins / engine disagree with the specification on {clauses}')
    run.evaluations += len(cases)
    for cse in cases[:2]:
        run.sample(cse)
    shutil.rmtree(wd, ignore_errors=True)
    run.exhaustive = False
