"""Shared machinery for the lazy-iterator machine: IterM (TLC: exhaustive / simulated programs) or seeded random programs
-> real optree (d_iter) -> Judge op "itertrace" (TLC re-executes IterSem!Step for every recorded call)."""
import glob, json, os, random, re, shutil

from harness import tla
from harness.checks import treefam as F

FIELDS = ('op', 'i', 'nil', 'ns', 'pk', 'pi', 'c', 'e', 'b')
EDITS = ('append', 'popfirst', 'poplast', 'clear', 'setfirst', 'alias')


def cfg(family, length, maxit=2, maxfresh=2, maxctx=2, props=True):
    return ('SPECIFICATION Spec\nCONSTANTS\n MaxLen = %d\n MaxIt = %d\n MaxFresh = %d\n MaxCtx = %d\n Family = "%s"\n'
            'INVARIANT AgendaValid\nINVARIANT FreshAgrees\nINVARIANT SnapshotDelivered\n%sCHECK_DEADLOCK FALSE\n'
            % (length, maxit, maxfresh, maxctx, family, 'PROPERTY AgendaStable\nPROPERTY StopAbsorbing\n' if props else ''))


def call_of(rec):
    return {k: rec[k] for k in FIELDS}


def exhaustive_programs(run, family, length, cap=None, seed=0, **kw):
    r = run.tlc(f'iter-{family}{length}', 'IterM', cfg(family, length, **kw), dump=True, timeout=3000)
    if r.violated:
        run.violation({'kind': 'model', 'invariant': r.violated, 'family': family, 'trace': [F.thaw(s) for _, s in tla.error_trace(r.out)][-2:]},
                      f'TLC: {r.violated} fails on the iterator specification itself')
    out, seen, rng = [], 0, random.Random(seed)
    if r.dump and os.path.exists(r.dump):
        for st in tla.read_dump(r.dump):
            h = st['hist']
            # maximal programs, and shorter ones that cannot be extended are rare: take every program of full length
            if len(h) != length:
                continue
            seen += 1
            item = {'shape': st['shape'], 'calls': [call_of(F.thaw(x)) for x in h]}
            if cap is None or len(out) < cap:
                out.append(item)
            else:
                j = rng.randrange(seen)
                if j < cap:
                    out[j] = item
        os.remove(r.dump)
    if cap is not None and seen > cap:
        run.extra[f'iter_programs_{family}_generated'] = seen
        run.extra[f'iter_programs_{family}_replayed'] = cap
    shutil.rmtree(os.path.join(r.wd, 'meta'), ignore_errors=True)
    return out


def simulated_programs(run, family, num, length, seed, **kw):
    wd = os.path.join(tla.WORK, f'{run.pid}-itersim-{family}')
    shutil.rmtree(wd, ignore_errors=True)
    os.makedirs(wd)
    r = run.tlc(f'itersim-{family}', 'IterM', cfg(family, length, props=False, **kw), simulate=f'file={wd}/b,num={num}',
                depth=length + 1, seed=seed, workers=1, timeout=1200)
    out = []
    for f in sorted(glob.glob(f'{wd}/b*')):
        txt = open(f).read()
        blocks = re.findall(r'STATE_\d+ ==\s*(.*?)(?=\n\nSTATE_|\n\n\\\*|\n=+|\Z)', txt, flags=re.S)
        if not blocks:
            continue
        m = re.search(r'/\\ hist = (.*?)(?=\n/\\ \w+ = |\Z)', blocks[-1], flags=re.S)
        s = re.search(r'/\\ shape = (\d+)', blocks[-1])
        if m and s:
            h = tla.parse_tla(m.group(1))
            out.append({'shape': int(s.group(1)), 'calls': [call_of(F.thaw(x)) for x in h]})
    shutil.rmtree(wd, ignore_errors=True)
    return out


def random_programs(count, length, seed):
    """long seeded random programs written directly; inapplicable calls are part of the language (the specification answers NOOP)"""
    rng = random.Random(seed)
    out = []
    preds = [('none', 0)] * 5 + [('leafat', 2), ('leafat', 3), ('leafat', 0), ('leafat', 4), ('raiseat', 3), ('raiseat', 11),
                                 ('raiseat', 4), ('raiseat', 2), ('leafat', 12), ('raiseat', 0)]

    def base(op, **kw):
        c = {'op': op, 'i': 0, 'nil': False, 'ns': '', 'pk': 'none', 'pi': 0, 'c': 0, 'e': '', 'b': False}
        c.update(kw)
        return c
    for _ in range(count):
        calls, nit = [], 0
        for _ in range(rng.randint(length // 2, length)):
            x = rng.random()
            if nit == 0 or x < 0.08:
                pk, pi = rng.choice(preds)
                calls.append(base('create', nil=rng.random() < 0.4, ns=rng.choice(['', '', 'a']), pk=pk, pi=pi))
                nit += 1
            elif x < 0.50:
                calls.append(base('next', i=rng.randint(1, nit + (1 if rng.random() < 0.03 else 0))))
            elif x < 0.75:
                calls.append(base('mutate', c=rng.randint(1, 4), e=rng.choice(EDITS)))
            elif x < 0.82:
                pk, pi = rng.choice(preds)
                calls.append(base('leaves', nil=rng.random() < 0.4, ns=rng.choice(['', 'a']), pk=pk, pi=pi))
            elif x < 0.90:
                calls.append(base('enter', ns=rng.choice(['', 'a']), b=rng.random() < 0.7))
            elif x < 0.94:
                calls.append(base('exit'))
            else:
                calls.append(base('reg', ns=rng.choice(['', 'a']), b=rng.random() < 0.5))
        out.append({'shape': rng.choice([1, 2, 3]), 'calls': calls})
    return out


def replay_and_judge(run, label, programs, asan=False, law=True):
    """returns the number of programs judged.  law=False: result differences are reported as model drift only (the caller's
    property is about crashes, which kill the driver and are reported by run.drive)"""
    if not programs:
        return 0
    wd = os.path.join(tla.WORK, f'{run.pid}-{label}')
    shutil.rmtree(wd, ignore_errors=True)
    os.makedirs(wd)
    inp, outp = os.path.join(wd, 'in.ndjson'), os.path.join(wd, 'out.ndjson')
    with open(inp, 'w') as fh:
        for p in programs:
            fh.write(json.dumps(p) + '\n')
    p = run.drive('harness.drivers.d_iter', [inp, outp], asan=asan, timeout=3000)
    if p.returncode != 0 or not os.path.exists(outp):
        return 0
    cases = [json.loads(l) for l in open(outp)]
    if len(cases) != len(programs):
        run.machinery(f'{label}: driver returned {len(cases)} traces for {len(programs)} programs')
    for idx, clauses in run.judge(cases, label + '-judge'):
        c = cases[idx]
        m = re.match(r'iter:(law|drift):step-(\d+):', clauses[0]) if clauses else None
        grade, k = (m.group(1), int(m.group(2))) if m else ('law', len(c['calls']))
        what = (f'lazy iterator: call {k} ({c["calls"][k - 1]["op"]}) of a {len(c["calls"])}-call program returned '
                f'{c["calls"][k - 1]["res"]}, which the specification (IterSem!Step) does not allow')
        if grade == 'drift' or not law:
            # the model of what happens BETWEEN two __next__ calls no longer matches the code; no listed property fixes that
            # behaviour, so this is reported, not alarmed on (DESIGN.md section 4, "iterator machine")
            d = run.extra.setdefault('iter_spec_drift', {'count': 0, 'examples': []})
            d['count'] += 1
            if len(d['examples']) < 3:
                d['examples'].append({'shape': c['shape'], 'calls': c['calls'][:k]})
            if d['count'] == 1:
                print(f'NOTE: spec drift (not a property violation): {what}')
            continue
        # keep the program up to the failing call: that is the replayable counterexample
        rec = {'kind': 'judge', 'op': 'itertrace', 'clauses': [re.sub(r'step-\d+', 'step', x) for x in clauses],
               'case': {'op': 'itertrace', 'shape': c['shape'], 'calls': c['calls'][:k]}}
        run.violation(rec, what)
    for c in cases:
        ops = {x['op'] for x in c['calls']}
        if 'next' in ops and ops & {'mutate', 'enter', 'reg'}:
            run.nontrivial.add('iter:' + json.dumps(c['calls'])[:160])
    shutil.rmtree(wd, ignore_errors=True)
    return len(cases)
