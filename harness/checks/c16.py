"""C16 - no input can make the extension touch invalid memory or overflow the stack."""
import json, os, shutil, subprocess
from harness import tla
from harness.checks import treefam as F
from harness.checks import iterfam as I


def _big_stack():
    # sanitizer instrumentation multiplies the size of stack frames: give the deep-recursion cases a stack that lets the
    # instrumented engine reach the same depths as the normal build (a real runaway recursion still overflows it)
    import resource
    try:
        resource.setrlimit(resource.RLIMIT_STACK, (1 << 30, resource.RLIM_INFINITY))
    except (ValueError, OSError):
        pass


def child_loop(run, label, argv_fn, asan, total_hint=None, timeout=1200):
    """run a driver in a child; on a crash / sanitizer abort attribute it to the announced case, record it, and resume after it"""
    wd = os.path.join(tla.WORK, f'{run.pid}-{label}-{"asan" if asan else "norm"}')
    shutil.rmtree(wd, ignore_errors=True)
    os.makedirs(wd)
    outp, prog = os.path.join(wd, 'out.ndjson'), os.path.join(wd, 'progress')
    start, crashes = 0, []
    for _ in range(60):
        cmd = ['/venv/bin/python', '-m', 'harness.drivers.d_mut'] + argv_fn(outp, prog, start)
        p = subprocess.run(cmd, cwd=os.path.dirname(os.path.dirname(os.path.dirname(os.path.abspath(__file__)))), env=run.pyenv(asan),
                           stdout=subprocess.PIPE, stderr=subprocess.PIPE, text=True, timeout=timeout,
                           preexec_fn=_big_stack if (asan and label == 'deep') else None)
        if p.returncode == 0:
            break
        last = open(prog).read().strip().splitlines()[-1] if os.path.exists(prog) and open(prog).read().strip() else '-1'
        idx = int(last.split('\t')[0])
        crashes.append({'case': last, 'rc': p.returncode, 'stderr': p.stderr[-1500:]})
        start = idx + 1
    results = [json.loads(l) for l in open(outp)] if os.path.exists(outp) else []
    shutil.rmtree(wd, ignore_errors=True)
    return results, crashes


def main(run):
    quick = run.tier == 'quick'
    run.rule = ('(i) nesting at MAX_RECURSION_DEPTH-2..+2 for 9 node kinds through 8 entry points, bound to the model by offset (Judge.DepthCase), '
                'plus every operation at exactly MAX and RecursionError at MAX+1 in a child process; (ii) MutGen: TLC enumerates container kind '
                'x traversal style x size x callback position x mutation and computes the allowed outcome with guarded reads; each is replayed '
                'through 6 recursive / 1 agenda entry points in a child process under the normal build and under the ASan+UBSan build; '
                '(iii) 44 API functions x 27 argument-type confusions in a child process under both builds; a crash, a sanitizer report or an '
                'outcome outside the allowed set is a violation; (iv) IterM programs (iterator suspended while its containers are mutated) under '
                'the sanitizer build; non-trivial = mutation cases whose mutation is reached by a later read')
    # (i) depth
    run.evaluations += F.drive_and_judge(run, 'depth', [], ['depth'])
    # (ii) mutation under traversal
    cfg = f'SPECIFICATION MSpec\nCONSTANTS\n  MaxN = {3 if quick else 4}\nINVARIANT ImmuneInv\nINVARIANT OutcomeInv\nCHECK_DEADLOCK FALSE\n'
    r = run.tlc('mutgen', 'MutGen', cfg, dump=True, timeout=1200)
    if r.violated:
        run.violation({'kind': 'model', 'invariant': r.violated}, 'TLC: MutGen invariant violated')
    cases = []
    if r.dump and os.path.exists(r.dump):
        for st in tla.read_dump(r.dump):
            if st['status'] != 'run':
                cases.append({k: (list(st[k]) if isinstance(st[k], tuple) else st[k]) for k in ('kind', 'style', 'n', 'p', 'mut', 'status', 'out')})
        os.remove(r.dump)
    shutil.rmtree(os.path.join(r.wd, 'meta'), ignore_errors=True)
    wd = os.path.join(tla.WORK, f'{run.pid}-mutin')
    os.makedirs(wd, exist_ok=True)
    inp = os.path.join(wd, 'mut.ndjson')
    F.write_work(inp, cases)
    for asan in (False, True):
        tag = 'asan' if asan else 'normal'
        res, crashes = child_loop(run, 'mut', lambda o, pr, s: ['mut', inp, o, pr, str(s)], asan)
        for c in crashes:
            idx = int(c['case'].split('\t')[0])
            run.violation({'kind': 'crash', 'build': tag, 'part': 'mutation', 'case': cases[idx] if 0 <= idx < len(cases) else None, 'rc': c['rc'],
                           'stderr': c['stderr'][-600:]},
                          f'[{tag} build] mutation under traversal crashed / sanitizer report: {cases[idx] if 0 <= idx < len(cases) else c["case"]}')
        for rr in res:
            exp = rr['case']
            for g in rr['got']:
                ok = g['status'] == exp['status'] and (exp['status'] != 'done' or g.get('out') == exp['out'])
                if not ok:
                    run.violation({'kind': 'mutation-outcome', 'build': tag, 'case': exp, 'entry': g['entry'], 'got': g},
                                  f'[{tag}] {g["entry"]} on {exp["kind"]} n={exp["n"]} p={exp["p"]} {exp["mut"]}: got {g}, allowed {exp["status"]} {exp["out"]}')
            if exp['status'] != 'done' or exp['out'] != list(range(1, exp['n'] + 1)):
                run.nontrivial.add(json.dumps(exp, sort_keys=True))
        run.evaluations += sum(len(rr['got']) for rr in res)
        run.extra[f'mutation_runs_{tag}'] = sum(len(rr['got']) for rr in res)
    # (iii) argument confusion, (i') operations at the limit
    for asan in (False, True):
        tag = 'asan' if asan else 'normal'
        for part in ('args', 'deep'):
            if part == 'deep' and asan and quick:
                continue
            res, crashes = child_loop(run, part, lambda o, pr, s, part=part: [part, o, pr, str(s)], asan, timeout=2400)
            for c in crashes:
                run.violation({'kind': 'crash', 'build': tag, 'part': part, 'case': c['case'], 'rc': c['rc'], 'stderr': c['stderr'][-600:]},
                              f'[{tag} build] {part}: crash / sanitizer report at {c["case"]}')
            for rr in res:
                if part == 'deep' and rr['res'] != 'value':
                    run.violation({'kind': 'deep', 'build': tag, 'case': rr['name'], 'res': rr['res']}, f'[{tag}] {rr["name"]}: {rr["res"]}')
                if part == 'args' and rr['res'].startswith('exc:') and rr['res'].split(':')[1] in ('SystemError', 'InternalError', 'MemoryError'):
                    run.violation({'kind': 'internal-error', 'build': tag, 'case': rr['name'], 'res': rr['res']},
                                  f'[{tag}] {rr["name"]}: {rr["res"]} (an internal error instead of a Python-level exception)')
            run.evaluations += len(res)
            run.extra[f'{part}_cases_{tag}'] = len(res)
    # (iv) containers mutated BETWEEN two __next__ calls of a suspended iterator (IterM programs), sanitizer build: a crash or
    # a sanitizer report kills the driver (= violation); wrong results are C03's business and only noted here
    progs = I.exhaustive_programs(run, 'mut', 3 if quick else 4, cap=2500 if quick else 40000, seed=run.seed) \
        + I.random_programs(600 if quick else 8000, 40, run.seed + 9)
    n = I.replay_and_judge(run, 'iter-asan', progs, asan=True, law=False)
    run.evaluations += n
    run.extra['iterator_programs_asan'] = n
    shutil.rmtree(wd, ignore_errors=True)
    run.sample({'mutation_case': cases[0] if cases else None})
    run.exhaustive = True
    run.extra['exhaustive_part'] = 'the MutGen matrix and the confusion matrix are finite and fully enumerated; depth offsets -2..+2'
    run.assumptions.append('memory safety on inputs outside the enumerated matrices is not excluded; the sanitizer is the oracle for reads that return plausible values')
