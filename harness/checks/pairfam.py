"""Shared machinery of the pair properties (C06, C07, C08-compose, C09): PairGen + d_pair + judge."""
import json, os, random, shutil

from harness import tla
from harness.checks import treecfg, treefam as F

treecfg.ALPHABETS['PA'] = ('MC_Pair', ['none', 'tuple', 'list', 'dict', 'odict'], [1], [0], [0])
treecfg.ALPHABETS['PB'] = ('MC_Pair', ['tuple', 'ddict', 'deque', 'nt', 'custom'], [1], [0, 3], [0])

PAIR_CFGS = [c for c in F.CFGS if not c['haspred'] and c['modes'] in ([], ['a'], [''])]


def pair_model_phase(run, bounds, invariants):
    pairs = {}
    for (alpha, n, st, ar) in bounds:
        mod, cfg = treecfg.cfg(alpha, n, st, ar, invariants, ns=('', 'a'))
        cfg = cfg.replace('SPECIFICATION Spec', 'SPECIFICATION PSpec')
        r = run.tlc(f'pair{alpha}{n}', mod, cfg, dump=True, timeout=3000)
        if r.violated:
            bad = tla.prints(r.out, 'BADPAIR')
            run.violation({'kind': 'model', 'invariant': r.violated, 'alphabet': alpha,
                           'pair': [F.thaw(bad[0][2]), F.thaw(bad[0][3])] if bad else None, 'cfg': F.thaw(bad[0][4]) if bad else None},
                          f'TLC: pair law {r.violated} fails on the specification itself (alphabet {alpha}, N={n})')
        if r.dump and os.path.exists(r.dump):
            for stt in tla.read_dump(r.dump):
                for p in stt['obs']:
                    a, b = F.thaw(p[0]), F.thaw(p[1])
                    pairs.setdefault(json.dumps([a, b], sort_keys=True), (a, b))
            os.remove(r.dump)
        shutil.rmtree(os.path.join(r.wd, 'meta'), ignore_errors=True)
    return list(pairs.values())


# ---- random pairs (code -> spec direction): edits of random trees -------------------------------
def nodes(t):
    yield t
    for c in t['ch']:
        yield from nodes(c)


def random_edit(t, rng, donor):
    """one local edit somewhere in t (in place); mirrors PairGen's edit catalogue, plus subtree substitution"""
    from harness.vuniv_model import T
    cands = [n for n in nodes(t)]
    n = rng.choice(cands)
    k = n['k']
    opts = []
    if k == 'leaf':
        opts.append('subst')
    if k in ('tuple', 'list') and n['id'] > 0:
        opts += ['swapkind', 'append', 'drop']
    if k in ('dict', 'odict', 'ddict'):
        opts += ['dictkind', 'reverse', 'rename', 'addkey', 'drop', 'shuffle']
    if k == 'deque':
        opts += ['maxlen', 'drop']
        if n['meta'] == 0 or n['meta'] - 1 > len(n['ch']):
            opts.append('append')
    if k == 'nt' and n['cls'] in (11, 14):
        opts.append('ntcls')
    if k == 'custom' and not n['hasent']:
        opts += ['meta', 'ccls']
    if k == 'none':
        opts.append('none2leaf')
    if not opts:
        return False
    e = rng.choice(opts)
    if e == 'subst':
        n.clear()
        n.update(json.loads(json.dumps(donor)))
    elif e == 'swapkind':
        n['k'] = 'list' if k == 'tuple' else 'tuple'
    elif e == 'append':
        n['ch'].append(T('leaf', rng.randint(5000, 9000)))
    elif e == 'drop' and n['ch']:
        n['ch'].pop()
        if n['keys']:
            n['keys'].pop()
    elif e == 'dictkind':
        n['k'] = rng.choice([x for x in ('dict', 'odict', 'ddict') if x != k])
        n['meta'] = rng.choice([0, 1, 2]) if n['k'] == 'ddict' else 0
    elif e == 'reverse':
        n['keys'].reverse(); n['ch'].reverse()
    elif e == 'shuffle':
        perm = list(range(len(n['ch']))); rng.shuffle(perm)
        n['keys'] = [n['keys'][i] for i in perm]; n['ch'] = [n['ch'][i] for i in perm]
    elif e in ('rename', 'addkey'):
        free = [kk for kk in F.KEYS if kk not in n['keys']]
        if not free:
            return False
        nk = list(rng.choice(free))
        if e == 'rename' and n['keys']:
            n['keys'][rng.randrange(len(n['keys']))] = nk
        else:
            n['keys'].append(nk); n['ch'].append(T('leaf', rng.randint(5000, 9000)))
    elif e == 'maxlen':
        n['meta'] = 0 if n['meta'] else len(n['ch']) + 2
    elif e == 'ntcls':
        n['cls'] = 14 if n['cls'] == 11 else 11
    elif e == 'meta':
        n['meta'] += 1
    elif e == 'ccls':
        n['cls'] = 3 if n['cls'] == 1 else 1
    elif e == 'none2leaf':
        n.update(T('leaf', rng.randint(5000, 9000)))
    return True


def relabel(t, start):
    """fresh unique ids (post-order), keeping None/empty-tuple conventions"""
    for c in t['ch']:
        start = relabel(c, start)
    if t['k'] == 'none':
        t['id'] = 0
    elif t['k'] == 'tuple' and not t['ch']:
        t['id'] = -1
    else:
        start += 1
        t['id'] = start
    return start


def random_pairs(seed, count, max_nodes=14):
    rng = random.Random(seed)
    out = []
    trees = F.random_trees(seed, count, max_nodes=max_nodes)
    for t in trees:
        b = json.loads(json.dumps(t))
        donor = rng.choice(trees)
        donor = json.loads(json.dumps(donor))
        for _ in range(rng.choice([0, 1, 1, 2, 3])):
            random_edit(b, rng, donor)
        if rng.random() < 0.3:
            for n in nodes(b):
                if n['k'] in ('dict', 'odict', 'ddict') and rng.random() < 0.7:
                    n['keys'].reverse(); n['ch'].reverse()
        # b gets fresh ids beyond a's so that leaf identities never collide
        relabel(b, 20000)
        out.append((t, b) if rng.random() < 0.7 else (b, t))
    return out


def run_xspec(run, label, pairs, rng):
    """pairs of treespecs made under two DIFFERENT option sets"""
    items = []
    for i, (a, b) in enumerate(pairs):
        c1 = PAIR_CFGS[(i * 5) % len(PAIR_CFGS)]
        c2 = PAIR_CFGS[(i * 5 + 1 + (i % 11)) % len(PAIR_CFGS)]
        items.append({'a': a, 'b': b, 'cfgs': [c1], 'cfg2s': [c2]})
    wd = os.path.join(tla.WORK, f'{run.pid}-{label}')
    os.makedirs(wd, exist_ok=True)
    inp, outp = os.path.join(wd, 'work.ndjson'), os.path.join(wd, 'cases.in.ndjson')
    F.write_work(inp, items)
    p = run.drive('harness.drivers.d_pair', [inp, outp, 'xspec'])
    if p.returncode != 0:
        return 0
    cases = [json.loads(l) for l in open(outp)]
    for idx, clauses in run.judge(cases, label):
        run.violation({'kind': 'judge', 'op': 'xspec', 'clauses': clauses, 'case': cases[idx]},
                      f'xspec (treespecs from different option sets): real optree disagrees with the specification on {clauses}')
    os.remove(outp)
    return len(cases)


def run_pairs(run, label, pairs, fams, k, rng):
    items = []
    for i, (a, b) in enumerate(pairs):
        cfgs = [PAIR_CFGS[(i * 5 + j * 11) % len(PAIR_CFGS)] for j in range(k)]
        items.append({'a': a, 'b': b, 'cfgs': cfgs})
    wd = os.path.join(tla.WORK, f'{run.pid}-{label}')
    os.makedirs(wd, exist_ok=True)
    inp, outp = os.path.join(wd, 'work.ndjson'), os.path.join(wd, 'cases.in.ndjson')
    F.write_work(inp, items)
    p = run.drive('harness.drivers.d_pair', [inp, outp, ','.join(fams)])
    if p.returncode != 0:
        return 0
    cases = [json.loads(l) for l in open(outp)]
    fails = run.judge(cases, label)
    for idx, clauses in fails:
        c = cases[idx]
        run.violation({'kind': 'judge', 'op': 'pair', 'clauses': clauses, 'case': c},
                      f'pair: real optree disagrees with the specification on {clauses}')
    for c in cases[:2]:
        run.sample({'op': 'pair', 'a': c['a'], 'b': c['b'], 'cfg': {k2: v for k2, v in c['cfg'].items() if k2 != 'reg'}})
    os.remove(outp)
    return len(cases), cases
