"""TLC configurations of the TreeGen generator (alphabets and bounds per tier)."""

ALPHABETS = {
    # name: (MC module, Kinds, Metas, MaxLens, Factories)
    'A': ('MC_TreeA', ['none', 'tuple', 'list', 'dict', 'odict'], [1], [0], [0]),
    'B': ('MC_TreeA', ['tuple', 'ddict', 'deque', 'nt', 'ss', 'custom', 'sub'], [1, 2], [0, 3], [0, 1]),
    'B1': ('MC_TreeA', ['tuple', 'ddict', 'deque', 'none'], [1], [0, 3], [0, 1]),
    'B2': ('MC_TreeA', ['list', 'nt', 'ss', 'custom', 'sub'], [1, 2], [0], [0]),
    'F': ('MC_TreeA', ['tuple', 'dict', 'custom'], [1], [0], [0]),
    'K': ('MC_TreeK', ['dict', 'ddict'], [1], [0], [1]),
    'KO': ('MC_TreeK', ['dict', 'odict', 'tuple'], [1], [0], [1]),
}


def tla_set(xs):
    return '{' + ', '.join(('"%s"' % x) if isinstance(x, str) else str(x) for x in xs) + '}'


def cfg(alpha, max_nodes, max_stack, max_arity, invariants, ns=('', 'a', 'zz'), depth=10, faults=()):
    mod, kinds, metas, maxlens, facs = ALPHABETS[alpha]
    lines = ['SPECIFICATION Spec', 'CONSTANTS',
             f'  MaxNodes = {max_nodes}', f'  MaxStack = {max_stack}', f'  MaxArity = {max_arity}',
             f'  Kinds = {tla_set(kinds)}', '  KeyU <- MCKeyU', '  NtCls <- MCNtCls', '  CustomCls <- MCCustomCls',
             f'  Metas = {tla_set(metas)}', f'  MaxLens = {tla_set(maxlens)}', f'  Factories = {tla_set(facs)}',
             '  Reg0 <- MCReg0', f'  NsSet = {tla_set(ns)}', '  ModeSet <- MCModeSet', '  PredSet <- MCPredSet',
             f'  Depth = {depth}', f'  Faults = {tla_set(faults)}']
    lines += [f'INVARIANT {i}' for i in invariants]
    lines.append('CHECK_DEADLOCK FALSE')
    return mod, '\n'.join(lines) + '\n'
