"""C17 - concurrent use from several threads is equivalent to some sequential use."""
import json, os, shutil, subprocess, time
from harness import tla
from harness.checks import treefam as F

PAIRS_Q = [('reg_hook', 'flatten'), ('reg', 'flatten'), ('next', 'next'), ('reg_hook', 'reg_hook'), ('unreg', 'flatten'), ('reg_hook', 'next'),
           ('hash', 'hash'), ('hash', 'reg_hook')]
PAIRS_T = PAIRS_Q + [('flatten', 'flatten'), ('reg', 'unreg'), ('reg_hook', 'unreg'), ('reg', 'next'), ('reg', 'reg'), ('flatten', 'next')]
TRIPLES = [('reg_hook', 'flatten', 'flatten'), ('reg', 'unreg', 'flatten'), ('reg_hook', 'flatten', 'next'), ('hash', 'hash', 'reg_hook')]


def mc(ops, keep, nobj=2, nitems=3):
    opseq = '<<' + ', '.join('"%s"' % o for o in ops) + '>>'
    text = f'---- MODULE MC_Threads ----\nEXTENDS Threads\nMCOpOf == {opseq}\n====\n'
    c = (f'SPECIFICATION Spec\nCONSTANTS\n  NThreads = {len(ops)}\n  OpOf <- MCOpOf\n  WaitKeepsGil = {"TRUE" if keep else "FALSE"}\n'
         f'  NObj = {nobj}\n  NItems = {nitems}\n  GuardKeyedByThread = TRUE\nINVARIANT GuardPrivate\nINVARIANT NoDeadlock\nINVARIANT NoTornLookup\nINVARIANT ExactlyOnce\nINVARIANT MutualExclusion\n'
         'INVARIANT TornOnlyUnderLock\nCHECK_DEADLOCK FALSE\n')
    return text, c


def releases_of(sched):
    """project a model schedule to the decisions a cooperative scheduler can make: which parked thread is released next"""
    parked = set()
    out = []
    first = True
    threads = sorted({e[0] for e in sched})
    parked = set(threads)          # all threads start parked at the start barrier
    for t, a in sched:
        if t in parked:
            out.append(t - 1)
            parked.discard(t)
        if a == 'cb':
            parked.add(t)
    return out


def main(run):
    quick = run.tier == 'quick'
    run.rule = ('Threads.tla: 2-3 threads executing code-shaped segment programs (flatten with is_leaf, register with a class-attribute hook '
                'under the registry write lock, plain register / unregister, shared iterator next) under one GIL token that can only change '
                'hands inside a callback; TLC explores ALL interleavings and checks deadlock freedom, no torn lookup, exactly-once delivery, '
                'mutual exclusion; every distinct terminal schedule is projected to release decisions and replayed on real threads by a '
                'cooperative scheduler (each callback parks its thread) in a child process with a no-progress watchdog; a hang, an exception, '
                'a lost / duplicated leaf or two winners of one registration is a violation; plus preemptive stress (24 threads, 1 us switch '
                'interval); non-trivial = schedules in which a thread is released while another is parked inside a callback')
    combos = PAIRS_Q if quick else PAIRS_T + TRIPLES
    cases = []
    for ops in combos:
        text, c = mc(ops, False)
        r = run.tlc('thr-' + '-'.join(ops), 'MC_Threads', c, extra_modules={'MC_Threads': text}, dump=True, timeout=1800)
        if r.violated:
            tr = tla.error_trace(r.out)
            run.violation({'kind': 'model', 'invariant': r.violated, 'ops': ops, 'sched': F.thaw(tr[-1][1].get('sched')) if tr else None},
                          f'TLC: {r.violated} fails on the Threads specification for {ops}')
        seen = set()
        if r.dump and os.path.exists(r.dump):
            for st in tla.read_dump(r.dump):
                if st['gil'] == 0 and sum(1 for e in st['sched'] if e[1] == 'end') == len(ops):
                    rel = tuple(releases_of(st['sched']))
                    if rel not in seen:
                        seen.add(rel)
                        cases.append({'ops': list(ops), 'releases': list(rel)})
            os.remove(r.dump)
        shutil.rmtree(os.path.join(r.wd, 'meta'), ignore_errors=True)
    # the as-found design (waiting for the registry lock while holding the GIL) for the record: TLC must find the deadlock
    text, c = mc(('reg_hook', 'flatten'), True)
    rk = run.tlc('thr-asfound', 'MC_Threads', c, extra_modules={'MC_Threads': text}, timeout=600)
    run.extra['design_counterexample_wait_keeps_gil'] = rk.violated
    if rk.violated != 'NoDeadlock':
        run.machinery('the as-found design (WaitKeepsGil) is expected to deadlock in the model; TLC did not find it (vacuity guard)')
    cap = 400 if quick else 2500
    if len(cases) > cap:
        import random
        rng = random.Random(run.seed)
        rng.shuffle(cases)
        run.extra['generated_schedules'] = len(cases)
        cases = cases[:cap]
    for cse in cases:
        if len(set(cse['releases'][:4])) > 1:
            run.nontrivial.add(json.dumps(cse))
    wd = os.path.join(tla.WORK, f'{run.pid}-sched')
    shutil.rmtree(wd, ignore_errors=True)
    os.makedirs(wd)
    inp, outp, prog = (os.path.join(wd, x) for x in ('sched.ndjson', 'out.ndjson', 'progress'))
    F.write_work(inp, cases)
    start, hangs = 0, []
    env = run.pyenv()
    while start < len(cases):
        p = subprocess.Popen(['/venv/bin/python', '-m', 'harness.drivers.d_sched', 'replay', inp, outp, prog, str(start)],
                             cwd=os.path.dirname(os.path.dirname(os.path.dirname(os.path.abspath(__file__)))), env=env,
                             stdout=subprocess.PIPE, stderr=subprocess.PIPE, text=True)
        last_size, last_change = -1, time.time()
        while p.poll() is None:
            time.sleep(0.5)
            sz = os.path.getsize(prog) if os.path.exists(prog) else 0
            if sz != last_size:
                last_size, last_change = sz, time.time()
            elif time.time() - last_change > 25:       # the per-schedule budget inside the driver is 20 s
                p.kill()
                break
        p.wait()
        if p.returncode == 0:
            break
        lines = open(prog).read().split() if os.path.exists(prog) else []
        idx = int(lines[-1]) if lines else start
        hangs.append((idx, p.returncode))
        start = idx + 1
        if len(hangs) > 20:
            break
    # confirm each hang in isolation before reporting it
    for idx, rc in hangs:
        one = os.path.join(wd, 'one.ndjson')
        F.write_work(one, [cases[idx]])
        try:
            q = subprocess.run(['/venv/bin/python', '-m', 'harness.drivers.d_sched', 'replay', one, os.path.join(wd, 'one.out'), os.path.join(wd, 'one.prog'), '0'],
                               cwd=os.path.dirname(os.path.dirname(os.path.dirname(os.path.abspath(__file__)))), env=env, capture_output=True, text=True, timeout=40)
            confirmed = q.returncode != 0
        except subprocess.TimeoutExpired:
            confirmed = True
        if confirmed:
            run.violation({'kind': 'hang', 'schedule': cases[idx], 'rc': rc},
                          f'schedule {cases[idx]} hangs / kills the process (no progress for 25 s, confirmed in isolation)')
    results = [json.loads(l) for l in open(outp)] if os.path.exists(outp) else []
    for rr in results:
        problems = []
        if not rr['finished']:
            problems.append('threads did not finish')
        oks = [x for x in rr['results'] if x]
        regs = [i for i, o in enumerate(rr['ops']) if o == 'reg_hook']
        if len(regs) == 2:
            wins = sum(1 for i in regs if rr['results'][i] and rr['results'][i]['ok'])
            if wins != 1:
                problems.append(f'{wins} winners among two concurrent registrations of one (type, namespace)')
        for i, o in enumerate(rr['ops']):
            res = rr['results'][i]
            if res is None:
                problems.append(f'thread {i} produced no result')
            elif o == 'flatten' and (not res['ok'] or res['nleaves'] != (0 if res['custom'] else 1)):
                problems.append(f'flatten result is not one of the sequential outcomes: {res}')
            elif o == 'hash' and (not res['ok'] or not res['same_as_alone']):
                problems.append(f'hash/repr of a shared treespec differs from its stand-alone value: {res}')
            elif o in ('reg', 'next') and not res['ok']:
                problems.append(f'{o} raised {res}')
            elif o == 'unreg' and not res['ok'] and 'reg' not in rr['ops']:
                pass   # unregistering something absent legitimately fails
        nexts = [rr['results'][i]['got'] for i, o in enumerate(rr['ops']) if o == 'next' and rr['results'][i] and rr['results'][i]['ok']]
        if nexts:
            flat = [x for g in nexts for x in g]
            if len(flat) != len(set(flat)):
                problems.append(f'a leaf was delivered twice: {nexts}')
            if all(o == 'next' for o in rr['ops']) and set(flat) != {1, 2, 3}:
                problems.append(f'leaves lost: {nexts}')
        if problems:
            run.violation({'kind': 'schedule', 'schedule': {'ops': rr['ops'], 'releases': rr['releases']}, 'results': rr['results'], 'problems': problems},
                          f'schedule {rr["ops"]} {rr["releases"]}: {problems}')
    run.traces += len(results)
    run.evaluations += len(results)
    for cse in cases[:3]:
        run.sample(cse)
    # preemptive stress
    so = os.path.join(wd, 'stress.json')
    try:
        ps = subprocess.run(['/venv/bin/python', '-m', 'harness.drivers.d_sched', 'stress', so, str(8 if quick else 60)],
                            cwd=os.path.dirname(os.path.dirname(os.path.dirname(os.path.abspath(__file__)))), env=env, capture_output=True, text=True,
                            timeout=120 if quick else 400)
        if ps.returncode != 0:
            run.violation({'kind': 'stress-crash', 'rc': ps.returncode, 'stderr': ps.stderr[-600:]}, f'preemptive stress crashed (rc={ps.returncode})')
        else:
            st = json.load(open(so))
            run.extra['stress'] = {'iterations': st['iterations'], 'delivered_by_threads': st['delivered_by_threads']}
            run.evaluations += st['iterations']
            for e in st['errors']:
                run.violation({'kind': 'stress', 'error': e}, f'preemptive stress: {e}')
    except subprocess.TimeoutExpired:
        run.violation({'kind': 'stress-hang'}, 'preemptive stress did not finish (hang)')
    shutil.rmtree(wd, ignore_errors=True)
    run.exhaustive = False
    run.assumptions.append('only the GIL build of CPython 3.12 exists here; Py_GIL_DISABLED code paths are compiled out and unverified')
