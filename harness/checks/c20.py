"""C20 - tree_ravel and its unravel function are mutually inverse."""
import json, os, random, shutil
from harness import tla
from harness.checks import treefam as F


def main(run):
    quick = run.tier == 'quick'
    n = 2 if quick else 3
    run.rule = (f'RavelGen.tla: every list of <= {n} leaves over 6 shapes (rank 0-3, zero-size and scalar) x 4 dtype kinds (bool < int < float < '
                'complex); TLC checks both inverse laws, the offsets and the rejection rules on the tag model; each leaf list is built as real '
                'arrays on numpy, jax and torch (narrow and wide dtypes), embedded in 5 pytree structures x none_is_leaf, raveled, unraveled, '
                're-raveled from another vector, and fed wrong lengths / ranks / dtypes; the promoted dtype is compared with the backend\'s own '
                'joint promotion; TLC judges the recorded observations; non-trivial = leaf lists with >= 2 leaves of different dtype or a '
                'zero-size / rank-0 leaf')
    shapes = '{<<>>, <<0>>, <<2>>, <<1, 2>>, <<2, 0>>, <<1, 1, 2>>}'
    cfg = f'SPECIFICATION RSpec\nCONSTANTS\n  MaxLeaves = {n}\n  Shapes <- MCShapes\n  DTypes = {{1, 2, 3, 4}}\nINVARIANT RavelInv\nCHECK_DEADLOCK FALSE\n'
    text = f'---- MODULE MC_Ravel ----\nEXTENDS RavelGen\nMCShapes == {shapes}\n====\n'
    r = run.tlc('ravel', 'MC_Ravel', cfg, extra_modules={'MC_Ravel': text}, dump=True, timeout=1800)
    if r.violated:
        run.violation({'kind': 'model', 'invariant': r.violated}, f'TLC: {r.violated} fails on RavelGen')
    items = []
    rng = random.Random(run.seed)
    if r.dump and os.path.exists(r.dump):
        for st in tla.read_dump(r.dump):
            ls = [{'shape': list(x['shape']), 'dt': x['dt']} for x in st['ls']]
            items.append({'ls': ls})
        os.remove(r.dump)
    shutil.rmtree(os.path.join(r.wd, 'meta'), ignore_errors=True)
    structs = ['tuple', 'list', 'dict', 'nested', 'odict-custom']
    if quick and len(items) > 320:
        rng.shuffle(items)
        small = [it for it in items if len(it['ls']) <= 1]
        items = small + [it for it in items if len(it['ls']) > 1][:320 - len(small)]
    for i, it in enumerate(items):
        it['structs'] = [structs[i % 5], structs[(i + 2) % 5]] if quick else structs
        it['wide'] = (i % 3 == 0)
        dts = {l['dt'] for l in it['ls']}
        if len(dts) > 1 or any(0 in l['shape'] or l['shape'] == [] for l in it['ls']):
            run.nontrivial.add(json.dumps(it['ls']))
    # order-sensitive promotion: longer lists of scalar leaves in every dtype order (3 leaves, incl. unsigned / small floats on numpy)
    wd = os.path.join(tla.WORK, f'{run.pid}-rv')
    shutil.rmtree(wd, ignore_errors=True)
    os.makedirs(wd)
    inp, outp = os.path.join(wd, 'ls.ndjson'), os.path.join(wd, 'cases.ndjson')
    F.write_work(inp, items)
    p = run.drive('harness.drivers.d_ravel', [inp, outp], timeout=3000)
    if p.returncode == 0:
        cases = [json.loads(l) for l in open(outp)]
        fails = run.judge(cases, 'rv')
        for idx, clauses in fails:
            run.violation({'kind': 'judge', 'op': 'ravel', 'clauses': clauses, 'case': cases[idx]},
                          f'ravel[{cases[idx].get("backend")}]: real optree disagrees with the specification on {clauses}')
        run.evaluations += len(cases)
        for c in cases[1:3]:
            run.sample(c)
    # numpy promotion is order sensitive when applied pairwise: all ordered triples over 14 dtypes, joint promotion as oracle
    pp = run.drive('harness.drivers.d_ravel_np', [os.path.join(wd, 'np.json')], check=False)
    if pp.returncode == 0:
        res = json.load(open(os.path.join(wd, 'np.json')))
        run.extra['numpy_dtype_triples'] = res['n']
        run.evaluations += res['n']
        for b in res['bad'][:10]:
            run.violation({'kind': 'numpy-promotion', **b}, f'numpy tree_ravel of dtypes {b["dtypes"]}: flat dtype {b["got"]}, joint promotion {b["exp"]}')
    else:
        run.machinery('d_ravel_np failed: ' + pp.stderr[-500:])
    shutil.rmtree(wd, ignore_errors=True)
    run.exhaustive = not quick
    run.assumptions.append("numeric fidelity of the array libraries' own casts is not claimed; values are small integer tags representable in every dtype used")
