"""C09 - broadcasting replicates prefix leaves onto the matching positions."""
import json, random
from harness.checks import pairfam as P, treefam as F


def main(run):
    quick = run.tier == 'quick'
    run.rule = ('PairGen pairs; TLC checks that the code-independent definition Lub (least structure both are prefixes of, keeping the first '
                "operand's node types / key order / custom entries) is commutative up to dict kind/order, idempotent, absorbs prefixes, and "
                'that two passes of pairwise Lub give the n-ary common suffix (triples); the real broadcast_to_common_suffix (then paths / '
                'accessors / entries), tree_broadcast_prefix, broadcast_prefix, tree_broadcast_common, broadcast_common and '
                'tree_broadcast_map (recorded calls) are judged against Lub / Owner; non-trivial = pairs whose common suffix differs from both operands')
    bounds = [('PA', 4, 2, 2), ('PB', 3, 2, 2)] if quick else [('PA', 5, 2, 2), ('PB', 4, 2, 2)]
    rng = random.Random(run.seed)
    pairs = P.pair_model_phase(run, bounds, ['PInvC09'])
    cap = 5000 if quick else 200000
    if len(pairs) > cap:
        rng.shuffle(pairs)
        run.extra['generated_pairs'] = len(pairs)
        pairs = pairs[:cap]
    n, cases = P.run_pairs(run, 's2c', pairs, ['broadcast'], 1 if quick else 3, rng)
    run.evaluations += n
    _count(run, cases)
    rp = P.random_pairs(run.seed + 13, 2000 if quick else 30000)
    n, cases = P.run_pairs(run, 'c2s', rp, ['broadcast'], 1 if quick else 2, rng)
    run.evaluations += n
    _count(run, cases)
    # layer M: the engine's two-cursor walk with per-key cursor table (MergeM.tla) refines Lub; positional pairing is refuted
    from harness.checks import treecfg
    from harness import tla
    treecfg.ALPHABETS['MM'] = ('MC_MergeM', ['tuple', 'list', 'dict', 'odict'], [1], [0], [0])
    for n, flag in ((4 if quick else 6, 'FALSE'), (5, 'TRUE')):
        mod, cfg = treecfg.cfg('MM', n, 2, 2, ['PInvMergeM'], ns=('',))
        cfg = cfg.replace('SPECIFICATION Spec', 'SPECIFICATION PSpec').replace('CONSTANTS', 'CONSTANTS\n  PairByPosition = ' + flag)
        r = run.tlc(f'mergeM-{flag}', mod, cfg, timeout=3000)
        if flag == 'FALSE' and r.violated:
            bad = tla.prints(r.out, 'BADPAIR')
            run.violation({'kind': 'model', 'invariant': r.violated, 'pair': [F.thaw(bad[0][2]), F.thaw(bad[0][3])] if bad else None},
                          'TLC: the code-shaped broadcast walk (MergeM) does not refine Lub')
        if flag == 'TRUE':
            run.extra['positional_pairing_refuted_by_TLC'] = r.violated
            if r.violated != 'PInvMergeM':
                run.machinery('vacuity guard: MergeM with PairByPosition=TRUE should violate PInvMergeM')
    # triples: the n-ary two-pass fixpoint (TLC, on the model) - forests of three
    mod, cfg = treecfg.cfg('A', 3 if quick else 4, 3, 2, ['TripleInv'], ns=('', 'a'))
    r = run.tlc('triples', mod, cfg, timeout=3000)
    if r.violated:
        run.violation({'kind': 'model', 'invariant': r.violated}, 'TLC: the n-ary broadcast law fails on the specification')
    run.exhaustive = False
    run.extra['bounds'] = [list(b) for b in bounds]


def _count(run, cases):
    for c in cases:
        b = c['bcs']
        if b['err'] == '' and b['v'] != c['sa'] and b['v'] != c['sb']:
            run.nontrivial.add(json.dumps([c['sa'], c['sb']], sort_keys=True))
        elif b['err'] != '':
            run.nontrivial.add(json.dumps([c['sa'], c['sb']], sort_keys=True))
