"""The universe shared by the TLA+ specification and the real code.

realise(model tree)  -> real Python object graph (+ Ctx remembering object identities)
project(object)      -> model tree (JSON-compatible dict), inverse of realise
project_spec(spec)   -> the treespec's post-order node array from __getstate__()

Model encodings are those of spec/PyTreeSem.tla.
"""
import collections, os, sys, time
from collections import OrderedDict, defaultdict, deque, namedtuple

import optree
from optree.registry import __GLOBAL_NAMESPACE as GLOBAL_NAMESPACE

# the binding must be to the engine freshly built from the tree under verification, never to /repo's in-place artefact
_bd = os.environ.get('VERIF_BUILD_DIR')
if _bd:
    assert optree.__file__.startswith(_bd) and optree._C.__file__.startswith(_bd), (optree.__file__, optree._C.__file__, _bd)

KINT, KSTR, KFLT, KORD, KUNORD, KNEST, KTIE, KTUP = 0, 1, 2, 3, 4, 5, 6, 7
NCUSTOM, NLEAF, NNONE, NTUPLE, NLIST, NDICT, NNT, NODICT, NDDICT, NDEQUE, NSS = range(11)
KIND_NAME = {NCUSTOM: 'custom', NLEAF: 'leaf', NNONE: 'none', NTUPLE: 'tuple', NLIST: 'list', NDICT: 'dict',
             NNT: 'nt', NODICT: 'odict', NDDICT: 'ddict', NDEQUE: 'deque', NSS: 'ss'}
KIND_NUM = {v: k for k, v in KIND_NAME.items()}

# strings in sorted order: STRS[v] < STRS[w]  iff  v < w
STRS = ['', 'A', 'a', 'ab', 'b', 'key', 'x', 'y', 'z', 'zz', '~'] + [f'~{i:03d}' for i in range(200)]
STR_ID = {s: i for i, s in enumerate(STRS)}


class Leaf:
    """Opaque leaf with an identity; arithmetic/ordering only so that reductions have something to fold."""
    __slots__ = ('n', '__weakref__')

    def __init__(self, n):
        self.n = n

    def __repr__(self):
        return f'L{self.n}'

    def __add__(self, o):
        return (self.n if isinstance(self, Leaf) else self) + (o.n if isinstance(o, Leaf) else o)

    __radd__ = __add__

    def __lt__(self, o):
        return self.n < o.n

    def __gt__(self, o):
        return self.n > o.n

    def __bool__(self):
        return self.n % 2 == 1


class KOrd:
    """user key type with a total order among its own instances"""
    __slots__ = ('v',)

    def __init__(self, v):
        self.v = v

    def __eq__(self, o):
        return type(o) is KOrd and o.v == self.v

    def __hash__(self):
        return hash(('KOrd', self.v))

    def __lt__(self, o):
        if type(o) is not KOrd:
            return NotImplemented
        return self.v < o.v

    def __repr__(self):
        return f'KOrd({self.v})'


class KTie:
    """user key type with a WEAK order (like frozensets under <, or floats with nan): KTie(2r) and KTie(2r+1) are different keys,
    neither is less than the other; a stable sort keeps them in insertion order"""
    __slots__ = ('v',)

    def __init__(self, v):
        self.v = v

    def __eq__(self, o):
        return type(o) is KTie and o.v == self.v

    def __hash__(self):
        return hash(('KTie', self.v))

    def __lt__(self, o):
        if type(o) is not KTie:
            return NotImplemented
        return self.v // 2 < o.v // 2

    def __repr__(self):
        return f'KTie({self.v})'


class KUnord:
    """user key type without any ordering"""
    __slots__ = ('v',)

    def __init__(self, v):
        self.v = v

    def __eq__(self, o):
        return type(o) is KUnord and o.v == self.v

    def __hash__(self):
        return hash(('KUnord', self.v))

    def __repr__(self):
        return f'KUnord({self.v})'


class Wrap:
    class AOrd:
        """orderable key class that is NESTED: __qualname__ 'Wrap.AOrd' sorts after 'KOrd'/'KUnord', __name__ 'AOrd' before them"""
        __slots__ = ('v',)

        def __init__(self, v):
            self.v = v

        def __eq__(self, o):
            return type(o) is Wrap.AOrd and o.v == self.v

        def __hash__(self):
            return hash(('AOrd', self.v))

        def __lt__(self, o):
            if type(o) is not Wrap.AOrd:
                return NotImplemented
            return self.v < o.v

        def __repr__(self):
            return f'AOrd({self.v})'


Wrap.AOrd.__module__ = 'vuniv'


class KHook:
    """key whose __lt__ / __hash__ / __eq__ are observable callbacks (fault and scheduling scenarios only)"""
    __slots__ = ('v',)

    def __init__(self, v):
        self.v = v

    def __eq__(self, o):
        if HOOK is not None:
            HOOK('key_eq', self)
        return type(o) is KHook and o.v == self.v

    def __hash__(self):
        if HOOK is not None:
            HOOK('key_hash', self)
        return hash(('KHook', self.v))

    def __lt__(self, o):
        if HOOK is not None:
            HOOK('key_lt', self)
        if type(o) is not KHook:
            return NotImplemented
        return self.v < o.v

    def __repr__(self):
        return f'KHook({self.v})'


class MetaHook:
    """custom-node metadata whose __eq__ / __hash__ / __repr__ are observable callbacks"""

    def __init__(self, v):
        self.v = v

    def __eq__(self, o):
        if HOOK is not None:
            HOOK('meta_eq', self)
        return type(o) is MetaHook and o.v == self.v

    def __hash__(self):
        if HOOK is not None:
            HOOK('meta_hash', self)
        return hash(('MetaHook', self.v))

    def __repr__(self):
        if HOOK is not None:
            HOOK('meta_repr', self)
        return f'MetaHook({self.v})'


KOrd.__module__ = KUnord.__module__ = KTie.__module__ = 'vuniv'
sys.modules.setdefault('vuniv', sys.modules[__name__])   # so that keys can be pickled by reference   # type-name rank: builtins.float < builtins.int < builtins.str < vuniv.KOrd < vuniv.KUnord


def mk_key(k):
    ty, v = k
    if ty == KINT:
        return int(v)
    if ty == KSTR:
        return STRS[v]
    if ty == KFLT:
        return v + 0.5
    if ty == KORD:
        return KOrd(v)
    if ty == KUNORD:
        return KUnord(v)
    if ty == KNEST:
        return Wrap.AOrd(v)
    if ty == KTIE:
        return KTie(v)
    if ty == KTUP:
        return (v // 2,) if v % 2 == 0 else (v // 2, 0)
    raise ValueError(k)


def proj_key(o):
    t = type(o)
    if t is int:
        return [KINT, o]
    if t is str:
        if o not in STR_ID:
            raise ValueError(f'string key outside the universe: {o!r}')
        return [KSTR, STR_ID[o]]
    if t is float:
        return [KFLT, int(o - 0.5)]
    if t is KOrd:
        return [KORD, o.v]
    if t is KUnord:
        return [KUNORD, o.v]
    if t is Wrap.AOrd:
        return [KNEST, o.v]
    if t is KTie:
        return [KTIE, o.v]
    if t is tuple and len(o) == 1 and type(o[0]) is int and o[0] >= 0:
        return [KTUP, 2 * o[0]]
    if t is tuple and len(o) == 2 and type(o[0]) is int and o[0] >= 0 and o[1] == 0 and type(o[1]) is int:
        return [KTUP, 2 * o[0] + 1]
    raise ValueError(f'key outside the universe: {o!r}')


# ------------------------------------------------------------------------------------------------
# classes of the universe
# ------------------------------------------------------------------------------------------------
def mk_meta(m):
    return ('meta', m)


def proj_meta(o):
    assert type(o) is tuple and o[0] == 'meta', o
    return o[1]


HOOK = None     # set by the fault / scheduling drivers: called as HOOK(kind, arg) inside every callback the engine makes


class _CustomBase:
    CLS = 0
    HASENT = False

    def __init__(self, children, meta, ent=None, fault=''):
        self.children = list(children)
        self.meta = meta
        self.ent = ent
        self.fault = fault

    def tree_flatten(self):
        if HOOK is not None:
            HOOK('flatten', self)
        if self.fault == 'tuplelen':
            return (self.children,)
        if self.fault == 'childiter':
            return (12345, mk_meta(self.meta))
        if self.fault == 'entiter':
            return (tuple(self.children), mk_meta(self.meta), 12345)
        if self.fault == 'entlen':
            return (tuple(self.children), mk_meta(self.meta), tuple(range(len(self.children) + 1)))
        if self.fault == 'entshort':      # fewer entries than children
            return (tuple(self.children), mk_meta(self.meta), tuple(range(max(len(self.children) - 1, 0))))
        # the registration contract asks for ITERABLES of children / entries: vary the representation (tuple, list, lazy
        # iterator without __len__) as a function of model-visible data, so that runs are reproducible
        rep = (len(self.children) + (self.meta if isinstance(self.meta, int) else 0)) % 3
        wrap = (tuple, list, iter)[rep]
        if self.HASENT:
            return (wrap(tuple(self.children)), mk_meta(self.meta), wrap(tuple(mk_key(e) for e in self.ent)))
        return (wrap(tuple(self.children)), mk_meta(self.meta))

    @classmethod
    def tree_unflatten(cls, meta, children):
        if HOOK is not None:
            HOOK('unflatten', meta)
        n = len(children)
        return cls(children, proj_meta(meta), [[KSTR, i + 1] for i in range(n)] if cls.HASENT else None)

    def __repr__(self):
        return f'{type(self).__name__}({self.children}, m={self.meta})'

    def __getitem__(self, e):
        """children are reachable through their declared entries (C04)"""
        if self.HASENT:
            return self.children[[mk_key(x) for x in self.ent].index(e)]
        return self.children[e]


class CA(_CustomBase):      # cls 1: registered in the global namespace, no explicit entries
    CLS = 1


class CB(_CustomBase):      # cls 2: registered in namespace 'a' only, explicit entries 'A','a',... (KSTR i)
    CLS = 2
    HASENT = True
    TREE_PATH_ENTRY_TYPE = optree.GetItemEntry


class CC(_CustomBase):      # cls 3: registered in 'a' and 'b' (same behaviour), no entries
    CLS = 3
    TREE_PATH_ENTRY_TYPE = optree.SequenceEntry


class CU(_CustomBase):      # cls 4: never registered -> always a leaf
    CLS = 4


class CM(_CustomBase):      # not part of the model universe: metadata with observable __eq__/__hash__/__repr__ (namespace 'm')
    CLS = 9

    def tree_flatten(self):
        if HOOK is not None:
            HOOK('flatten', self)
        return (tuple(self.children), MetaHook(self.meta))

    @classmethod
    def tree_unflatten(cls, meta, children):
        if HOOK is not None:
            HOOK('unflatten', meta)
        return cls(children, meta.v)


NT2 = namedtuple('NT2', ['x', 'y'])       # cls 11
NT1 = namedtuple('NT1', ['u'])            # cls 12
NT0 = namedtuple('NT0', [])               # cls 13
NT2b = namedtuple('NT2b', ['x', 'y'])     # cls 14: same shape, different class
NT3 = namedtuple('NT3', ['p', 'q', 'r'])  # cls 15
SS2 = os.terminal_size                    # cls 21 (fields columns, lines)
SS5 = os.times_result                     # cls 22 (5 fields)


class SubList(list):        # cls 31
    pass


class SubDict(dict):        # cls 32
    pass


class SubTuple(tuple):      # cls 33
    pass


CUSTOM = {1: CA, 2: CB, 3: CC, 4: CU}
CUSTOM_ID = {v: k for k, v in CUSTOM.items()}
NTCLS = {11: NT2, 12: NT1, 13: NT0, 14: NT2b, 15: NT3}
SSCLS = {21: SS2, 22: SS5}
NT_ARITY = {11: 2, 12: 1, 13: 0, 14: 2, 15: 3, 21: 2, 22: 5}
SUBCLS = {31: SubList, 32: SubDict, 33: SubTuple}
CLS_OF = {**CUSTOM, **NTCLS, **SSCLS, **SUBCLS}
CLS_ID = {v: k for k, v in CLS_OF.items()}
NT_FIELDS = {11: ('x', 'y'), 12: ('u',), 13: (), 14: ('x', 'y'), 15: ('p', 'q', 'r'), 21: ('columns', 'lines'),
             22: ('user', 'system', 'children_user', 'children_system', 'elapsed')}


def fac3():
    return 3


class _HistFactory:
    """default_factory of history-built defaultdicts: hands out the leaf the model says __missing__ creates"""
    pending = None

    def __call__(self):
        leaf, self.pending = self.pending, None
        assert leaf is not None
        return leaf


hist_factory = _HistFactory()
FACTORIES = {0: None, 1: list, 2: int, 3: fac3, 4: hist_factory}
FACTORY_ID = {v: k for k, v in FACTORIES.items()}

# the registry world W0 = Reg0 of the specification
REG0 = [['', 1], ['a', 2], ['a', 3], ['b', 3]]
_registered = False


def setup_world():
    """Make the registrations of world W0 (idempotent)."""
    global _registered
    if _registered:
        return
    optree.register_pytree_node_class(CA, namespace=GLOBAL_NAMESPACE)
    optree.register_pytree_node_class(CB, namespace='a')
    optree.register_pytree_node_class(CC, namespace='a')
    optree.register_pytree_node_class(CC, namespace='b')
    optree.register_pytree_node_class(CM, namespace='m')
    _registered = True


# ------------------------------------------------------------------------------------------------
# realise / project
# ------------------------------------------------------------------------------------------------
class Ctx:
    """Remembers which real object stands for which model id."""

    def __init__(self):
        self.by_id = {}        # model id -> object
        self.idmap = {}        # id(object) -> model id
        self.keep = []         # keeps objects alive so id() stays unique
        self.fresh = 100000

    def bind(self, obj, mid):
        self.by_id[mid] = obj
        self.idmap[id(obj)] = mid
        self.keep.append(obj)

    def id_of(self, obj, fresh=True):
        if obj is None:
            return 0
        if type(obj) is tuple and not obj:
            return -1            # the empty tuple is a singleton: no identity
        i = self.idmap.get(id(obj))
        if i is None:
            if not fresh:
                return -1
            self.fresh += 1
            i = self.fresh
            self.bind(obj, i)
        return i

    def new_leaves(self, n):
        out = []
        for _ in range(n):
            self.fresh += 1
            o = Leaf(self.fresh)
            self.bind(o, self.fresh)
            out.append(o)
        return out


from harness.vuniv_model import T  # noqa: E402,F401


def realise_hist(h, ctx):
    """Replay an operation history (HistGen) on a real container, so that its storage order differs from its logical order."""
    kind = h['kind']
    c = {'dict': dict, 'odict': OrderedDict}[kind]() if kind in ('dict', 'odict') else \
        defaultdict(hist_factory) if kind == 'ddict' else deque(maxlen=h['maxlen'] - 1)

    def leaf(v):
        o = Leaf(v)
        ctx.bind(o, v)
        return o
    for op, k, v in h['ops']:
        key = mk_key(k) if kind != 'deque' else None
        if op == 'set':
            c[key] = leaf(v)
        elif op == 'del':
            del c[key]
        elif op == 'move':
            c.move_to_end(key, last=bool(v))
        elif op == 'miss':
            hist_factory.pending = leaf(v)
            c[key]          # noqa: B018  -- __missing__ inserts
        elif op == 'append':
            c.append(leaf(v))
        elif op == 'appendleft':
            c.appendleft(leaf(v))
        elif op == 'rotate':
            c.rotate(v)
        else:
            raise ValueError(op)
    ctx.bind(c, h['id'])
    return c


def realise(t, ctx, subst=None):
    k = t['k']
    if subst and t['id'] in subst:
        return subst[t['id']]
    if k == 'none':
        return None
    if k == 'leaf':
        if t['id'] in ctx.by_id:       # the same leaf object twice in one tree
            return ctx.by_id[t['id']]
        o = Leaf(t['id'])
    else:
        kids = [realise(c, ctx, subst) for c in t['ch']]
        if k == 'tuple':
            o = tuple(kids)
        elif k == 'list':
            o = list(kids)
        elif k == 'deque':
            o = deque(kids, maxlen=None if t['meta'] == 0 else t['meta'] - 1)
        elif k in ('dict', 'odict', 'ddict'):
            keys = [mk_key(x) for x in t['keys']]
            o = {'dict': dict, 'odict': OrderedDict}[k]() if k != 'ddict' else defaultdict(FACTORIES[t['meta']])
            for kk, v in zip(keys, kids):
                o[kk] = v
        elif k == 'nt':
            o = NTCLS[t['cls']](*kids)
        elif k == 'ss':
            o = SSCLS[t['cls']](tuple(kids))
        elif k == 'custom':
            o = CUSTOM[t['cls']](kids, t['meta'], t['ent'] if t['hasent'] else None, t.get('fault', ''))
        elif k == 'sub':
            o = SUBCLS[t['cls']]()
        else:
            raise ValueError(k)
    if t['id'] > 0:
        ctx.bind(o, t['id'])
    else:
        ctx.keep.append(o)
    return o


def project(o, ctx, fresh=True):
    """Structural projection by exact type.  Containers get the model id they were realised with, or -1."""
    if o is None:
        return T('none', 0)
    ty = type(o)
    if ty is Leaf:
        return T('leaf', ctx.id_of(o, fresh))
    cid = ctx.idmap.get(id(o), -1)
    if ty is tuple:
        return T('tuple', cid if len(o) else -1, [project(c, ctx, fresh) for c in o])   # () is a singleton: no identity
    if ty is list:
        return T('list', cid, [project(c, ctx, fresh) for c in o])
    if ty is deque:
        return T('deque', cid, [project(c, ctx, fresh) for c in o], meta=0 if o.maxlen is None else o.maxlen + 1)
    if ty is dict:
        return T('dict', cid, [project(c, ctx, fresh) for c in o.values()], [proj_key(x) for x in o])
    if ty is OrderedDict:
        return T('odict', cid, [project(c, ctx, fresh) for c in o.values()], [proj_key(x) for x in o])
    if ty is defaultdict:
        return T('ddict', cid, [project(c, ctx, fresh) for c in o.values()], [proj_key(x) for x in o],
                 meta=FACTORY_ID[o.default_factory])
    if ty in CLS_ID:
        c = CLS_ID[ty]
        if c in NTCLS:
            return T('nt', cid, [project(x, ctx, fresh) for x in o], cls=c)
        if c in SSCLS:
            return T('ss', cid, [project(x, ctx, fresh) for x in o], cls=c)
        if c in CUSTOM:
            return T('custom', cid, [project(x, ctx, fresh) for x in o.children], meta=o.meta, cls=c,
                     ent=o.ent if o.ent is not None else (), hasent=o.ent is not None, fault=o.fault)
        if c in SUBCLS:
            return T('sub', ctx.id_of(o, fresh), cls=c)
    # anything else: opaque leaf identified by object identity
    return T('leaf', ctx.id_of(o, fresh))


def subtrees(t):
    yield t
    for c in t['ch']:
        yield from subtrees(c)


def leaf_ids(objs, ctx):
    return [ctx.id_of(o) for o in objs]


def project_spec(spec):
    """The post-order node array (exact; from __getstate__) in the encoding of PyTreeSem.Node."""
    nodes_state, nil, ns = spec.__getstate__()
    nodes = []
    for (kind, arity, data, ent, ctype, nl, nn, okeys) in nodes_state:
        n = {'kind': kind, 'arity': arity, 'keys': [], 'm': 0, 'hasent': ent is not None,
             'ent': [proj_key(e) for e in ent] if ent is not None else [], 'cls': 0, 'nl': nl, 'nn': nn,
             'okeys': [proj_key(x) for x in okeys] if okeys is not None else [], 'hasok': okeys is not None}
        if kind in (NDICT, NODICT):
            n['keys'] = [proj_key(x) for x in data]
        elif kind == NDDICT:
            n['m'] = FACTORY_ID[data[0]]
            n['keys'] = [proj_key(x) for x in data[1]]
        elif kind == NDEQUE:
            n['m'] = 0 if data is None else data + 1
        elif kind in (NNT, NSS):
            n['m'] = CLS_ID[data]
        elif kind == NCUSTOM:
            n['m'] = proj_meta(data)
            n['cls'] = CLS_ID[ctype]
        nodes.append(n)
    return {'nodes': nodes, 'nil': bool(nil), 'ns': ns}


def exc_class(e):
    """Project an exception to the error classes of the specification."""
    if isinstance(e, RecursionError):
        return 'Recursion'
    if isinstance(e, IndexError):
        return 'Index'
    if isinstance(e, KeyError):
        return 'Key'
    if isinstance(e, ValueError):
        return 'Value'
    if isinstance(e, TypeError):
        return 'Type'
    if isinstance(e, SystemError):
        return 'System'
    if isinstance(e, RuntimeError):
        return 'Runtime'
    return type(e).__name__


def make_pred(cfg, ctx):
    if not cfg['haspred']:
        return None
    kinds = set(cfg['pk'])
    ids = set(cfg['pi'])

    def kind_of(o):
        if o is None:
            return 'none'
        ty = type(o)
        return {tuple: 'tuple', list: 'list', dict: 'dict', OrderedDict: 'odict', defaultdict: 'ddict', deque: 'deque',
                Leaf: 'leaf'}.get(ty) or ('nt' if CLS_ID.get(ty) in NTCLS else 'ss' if CLS_ID.get(ty) in SSCLS else
                                          'custom' if CLS_ID.get(ty) in CUSTOM else 'sub' if CLS_ID.get(ty) in SUBCLS else 'leaf')

    def pred(o):
        return kind_of(o) in kinds or ctx.idmap.get(id(o), -1) in ids
    return pred


class modes:
    """context manager establishing a set of insertion-ordered namespaces"""

    def __init__(self, ms):
        self.ms = list(ms)
        self.stack = []

    def __enter__(self):
        for m in self.ms:
            cm = optree.dict_insertion_ordered(True, namespace=GLOBAL_NAMESPACE if m == '' else m)
            cm.__enter__()
            self.stack.append(cm)

    def __exit__(self, *a):
        while self.stack:
            self.stack.pop().__exit__(None, None, None)
        return False
