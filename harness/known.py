"""Known findings: committed predicates over replay records.  Nothing here is written at run time.

known_findings.json lists {id, property, status: known|fixed, predicate, description}.  A violation record is a
known finding iff a `known` entry of the same property names a predicate that accepts the record; `fixed`
entries suppress nothing.
"""
import json, os

VERIF = os.path.dirname(os.path.dirname(os.path.abspath(__file__)))


def _load():
    p = os.path.join(VERIF, 'known_findings.json')
    return json.load(open(p)) if os.path.exists(p) else []


PREDICATES = {}


def predicate(fn):
    PREDICATES[fn.__name__] = fn
    return fn


def classify(pid, record):
    for f in _load():
        if f['property'] == pid and f['status'] == 'known':
            fn = PREDICATES.get(f['predicate'])
            try:
                if fn and fn(record):
                    return f['id']
            except Exception:   # noqa: BLE001
                pass
    return None


def describe(fid):
    for f in _load():
        if f['id'] == fid:
            return f['description']
    return fid


@predicate
def c11_protocol01(rec):
    """only the protocol-0 / protocol-1 dumps fail, with TypeError, and nothing else is wrong with the case"""
    if rec.get('op') != 'pickle' or not rec.get('clauses'):
        return False
    if not set(rec['clauses']) <= {'pickle-protocol-0:no-error', 'pickle-protocol-1:no-error'}:
        return False
    errs = {l['via']: l['err'] for l in rec['case']['loads']}
    return errs.get('pickle-protocol-0') == 'Type' and errs.get('pickle-protocol-1') == 'Type'
