------------------------------ MODULE IterSem ------------------------------
(***************************************************************************)
(* The lazy leaf iterator (optree.tree_iter / PyTreeIter) as a stateful    *)
(* object over a MUTABLE heap, next to the process state it depends on     *)
(* (registry, dict-order modes).  Layer D says what a traversal returns    *)
(* for a frozen tree; this module says what a *suspended* traversal does   *)
(* when the program runs between two __next__ calls:                       *)
(*                                                                         *)
(*   - the iterator owns an agenda (a stack of objects still to visit);    *)
(*     a container is read when it is popped, not before: mutations of     *)
(*     containers not yet expanded are seen, mutations of containers       *)
(*     already expanded are not (their children were captured);            *)
(*   - none_is_leaf, the namespace and the dict-order mode are captured    *)
(*     when the iterator is created; the registry is consulted when an     *)
(*     object is popped (a type unregistered meanwhile is a leaf);         *)
(*   - a raising predicate consumes the object it was asked about: the     *)
(*     iterator stays usable and continues with the rest of the agenda;    *)
(*   - exhaustion is absorbing.                                            *)
(*                                                                         *)
(* Everything is a pure operator on a state record                         *)
(*   S = [heap, its, modes, ctx, reg, nfresh]                              *)
(* so that the same definitions drive the generator (IterM) and judge the  *)
(* traces recorded from the real code (Judge, op = "itertrace").           *)
(*                                                                         *)
(* Object ids: 0 = None, 1..4 = containers, 10..19 = initial leaves,       *)
(* 20+n = the n-th leaf allocated by a mutation.                           *)
(***************************************************************************)
EXTENDS Naturals, Integers, Sequences, FiniteSets, TLC

Cont(k, ch, keys) == [k |-> k, ch |-> ch, keys |-> keys]
NCont == 4
\* initial heaps: nested mutable containers, unsorted dict keys, None, a custom node, a SHARED container (shape 2: deque 4,
\* shape 3: list 2)
Shape(s) ==
  CASE s = 1 -> <<Cont("list", <<2, 3, 4, 10>>, <<>>), Cont("list", <<11, 12>>, <<>>),
                  Cont("dict", <<13, 14>>, <<2, 1>>), Cont("custom", <<15, 16>>, <<>>)>>
    [] s = 2 -> <<Cont("tuple", <<2, 0, 3>>, <<>>), Cont("custom", <<11, 4>>, <<>>),
                  Cont("odict", <<14, 4>>, <<2, 1>>), Cont("deque", <<12, 13>>, <<>>)>>
    [] s = 3 -> <<Cont("ddict", <<2, 3>>, <<3, 1>>), Cont("list", <<0, 11, 4>>, <<>>),
                  Cont("dict", <<2, 12>>, <<2, 1>>), Cont("deque", <<15>>, <<>>)>>
Shapes == {1, 2, 3}

S0(s) == [heap |-> Shape(s), its |-> <<>>, modes |-> {}, ctx |-> <<>>, reg |-> {""}, nfresh |-> 0]

IsDictKind(k) == k \in {"dict", "odict", "ddict"}
Rev(s) == [i \in 1..Len(s) |-> s[Len(s) + 1 - i]]
\* indices of `keys` in ascending key order (keys are distinct integers)
SortedIdx(keys) == LET n == Len(keys) IN
                   [r \in 1..n |-> CHOOSE i \in 1..n : Cardinality({j \in 1..n : keys[j] < keys[i]}) = r - 1]
NOOP == <<0 - 4>>
STOP == <<0 - 1>>
ERR  == <<0 - 2>>

\* which registration of the custom class a traversal in namespace ns uses: 2 = the one made in "a" (children REVERSED),
\* 1 = the global one (children in order), 0 = none: instances are leaves
Lookup(reg, ns) == IF ns = "a" /\ "a" \in reg THEN 2 ELSE IF "" \in reg THEN 1 ELSE 0
Effective(S, ns) == ns \in S.modes \/ "" \in S.modes

\* `it` carries the options of a traversal: [nil, ns, ord, pk, pi]
KindNow(S, it, id) ==
  IF id = 0 THEN (IF it.nil THEN "leaf" ELSE "none")
  ELSE IF id >= 10 THEN "leaf"
  ELSE LET k == S.heap[id].k IN IF k = "custom" /\ Lookup(S.reg, it.ns) = 0 THEN "leaf" ELSE k

ChildrenNow(S, it, id) ==
  LET c == S.heap[id] IN
  CASE c.k = "custom" -> IF Lookup(S.reg, it.ns) = 2 THEN Rev(c.ch) ELSE c.ch
    [] c.k \in {"dict", "ddict"} -> IF it.ord THEN c.ch ELSE LET ix == SortedIdx(c.keys) IN [r \in 1..Len(ix) |-> c.ch[ix[r]]]
    [] OTHER -> c.ch

\* ---- one __next__: pop until a leaf is found ---------------------------------------------------
RECURSIVE Run(_, _, _)
Run(S, it, ag) ==
  IF ag = <<>> THEN [res |-> STOP, ag |-> ag]
  ELSE LET top == ag[Len(ag)]
           rest == SubSeq(ag, 1, Len(ag) - 1) IN
       IF it.pk = "raiseat" /\ it.pi = top THEN [res |-> ERR, ag |-> rest]        \* the object is consumed
       ELSE IF it.pk = "leafat" /\ it.pi = top THEN [res |-> <<top>>, ag |-> rest]
       ELSE LET k == KindNow(S, it, top) IN
            IF k = "leaf" THEN [res |-> <<top>>, ag |-> rest]
            ELSE IF k = "none" THEN Run(S, it, rest)
            ELSE Run(S, it, rest \o Rev(ChildrenNow(S, it, top)))

\* all remaining __next__ results up to exhaustion or the first error (for the agreement law only)
RECURSIVE Drain(_, _, _)
Drain(S, it, ag) == LET r == Run(S, it, ag) IN
                    IF r.res = STOP THEN <<>> ELSE IF r.res = ERR THEN ERR ELSE r.res \o Drain(S, it, r.ag)

\* ---- the eager traversal of the same heap (layer D's recursion, on object ids) --------------------
Cat(a, b) == IF a # <<>> /\ a[Len(a)] = 0 - 2 THEN a ELSE a \o b
RECURSIVE Flat(_, _, _), FlatSeq(_, _, _, _)
Flat(S, it, id) ==
  IF it.pk = "raiseat" /\ it.pi = id THEN ERR
  ELSE IF it.pk = "leafat" /\ it.pi = id THEN <<id>>
  ELSE LET k == KindNow(S, it, id) IN
       IF k = "leaf" THEN <<id>> ELSE IF k = "none" THEN <<>>
       ELSE FlatSeq(S, it, ChildrenNow(S, it, id), 1)
FlatSeq(S, it, ch, i) == IF i > Len(ch) THEN <<>> ELSE Cat(Flat(S, it, ch[i]), FlatSeq(S, it, ch, i + 1))
Leaves(S, it) == LET f == Flat(S, it, 1) IN IF f # <<>> /\ f[Len(f)] = 0 - 2 THEN ERR ELSE f

\* ---- mutations performed by the program between two calls -------------------------------------------
Edits == {"append", "popfirst", "poplast", "clear", "setfirst", "alias"}
NewKey(n) == IF n % 2 = 0 THEN 0 - (n + 1) ELSE 100 + n          \* alternately sorts first / last
NewLeaf(n) == 20 + n
DropFirst(s) == SubSeq(s, 2, Len(s))
DropLast(s) == SubSeq(s, 1, Len(s) - 1)
Mutable(S, c) == c \in 1..NCont /\ S.heap[c].k # "tuple"
\* can the edit be carried out at all (otherwise the call is a no-op: NOOP, state unchanged)
CanEdit(S, c, e) ==
  /\ Mutable(S, c)
  /\ e \in {"popfirst", "poplast", "setfirst"} => S.heap[c].ch # <<>>
  /\ e = "alias" => c = 1
Edit(S, c, e) ==
  LET h == S.heap[c]
      d == IsDictKind(h.k)
      n == S.nfresh
      nh == CASE e = "append"   -> [h EXCEPT !.ch = Append(@, NewLeaf(n)), !.keys = IF d THEN Append(@, NewKey(n)) ELSE @]
              [] e = "alias"    -> [h EXCEPT !.ch = Append(@, 2), !.keys = IF d THEN Append(@, NewKey(n)) ELSE @]
              [] e = "popfirst" -> [h EXCEPT !.ch = DropFirst(@), !.keys = IF d THEN DropFirst(@) ELSE @]
              [] e = "poplast"  -> [h EXCEPT !.ch = DropLast(@), !.keys = IF d THEN DropLast(@) ELSE @]
              [] e = "clear"    -> [h EXCEPT !.ch = <<>>, !.keys = <<>>]
              [] e = "setfirst" -> [h EXCEPT !.ch = [@ EXCEPT ![1] = NewLeaf(n)]]
  IN [S EXCEPT !.heap = [@ EXCEPT ![c] = nh], !.nfresh = IF e \in {"append", "alias", "setfirst"} THEN n + 1 ELSE n]

\* ---- with dict_insertion_ordered(b, namespace=ns): enter / exit (innermost), as in Registry.tla -------
EnterCtx(S, ns, b) == [S EXCEPT !.ctx = Append(@, [ns |-> ns, prev |-> ns \in S.modes]),
                                !.modes = IF b THEN @ \cup {ns} ELSE @ \ {ns}]
ExitCtx(S) == LET f == S.ctx[Len(S.ctx)] IN
              [S EXCEPT !.ctx = SubSeq(@, 1, Len(@) - 1), !.modes = IF f.prev THEN @ \cup {f.ns} ELSE @ \ {f.ns}]

ItOf(S, c, ord) == [nil |-> c.nil, ns |-> c.ns, ord |-> ord, pk |-> c.pk, pi |-> c.pi]

\* ---- one call of the program: new state and the observable result ----------------------------------
\* c = [op, i, nil, ns, pk, pi, c, e, b, res]; results: next -> <<id>> | STOP | ERR; leaves -> ids | ERR; NOOP when not applicable
Step(S, c) ==
  CASE c.op = "create" -> [st |-> [S EXCEPT !.its = Append(@, [ag |-> <<1>>, o |-> ItOf(S, c, Effective(S, c.ns))])], res |-> <<>>]
    [] c.op = "next"   -> IF c.i \notin 1..Len(S.its) THEN [st |-> S, res |-> NOOP]
                          ELSE LET r == Run(S, S.its[c.i].o, S.its[c.i].ag) IN
                               [st |-> [S EXCEPT !.its[c.i].ag = r.ag], res |-> r.res]
    [] c.op = "leaves" -> [st |-> S, res |-> Leaves(S, ItOf(S, c, Effective(S, c.ns)))]
    [] c.op = "mutate" -> IF CanEdit(S, c.c, c.e) THEN [st |-> Edit(S, c.c, c.e), res |-> <<>>] ELSE [st |-> S, res |-> NOOP]
    [] c.op = "enter"  -> [st |-> EnterCtx(S, c.ns, c.b), res |-> <<>>]
    [] c.op = "exit"   -> IF S.ctx = <<>> THEN [st |-> S, res |-> NOOP] ELSE [st |-> ExitCtx(S), res |-> <<>>]
    [] c.op = "reg"    -> IF (c.ns \in S.reg) = c.b THEN [st |-> S, res |-> NOOP]      \* already (un)registered: the call fails
                          ELSE [st |-> [S EXCEPT !.reg = IF c.b THEN @ \cup {c.ns} ELSE @ \ {c.ns}], res |-> <<>>]

\* a whole recorded history against the specification: the index and operation of the first call whose result differs.
\* The verdict is graded.  "law": the call is one whose result the PROPERTIES fix for every correct implementation - an eager
\* tree_leaves on the current heap, or a __next__ of an iterator that is `clean`: its predicate never raises and nothing (no
\* mutation, mode or registry change) has happened since it was created, so that lazy and eager evaluation coincide (C03, C12,
\* C13).  "drift": the call's result is fixed only by this model of what the code does between two __next__ calls (when a
\* container is read, that a raising predicate consumes its object, that exhaustion is absorbing): a difference means the model
\* no longer describes the code, not that a listed property is broken.
RECURSIVE Replay(_, _, _, _)
Replay(S, calls, k, clean) ==
  IF k > Len(calls) THEN <<>>
  ELSE LET c == calls[k]
           r == Step(S, c)
           grade == IF c.op = "next" /\ c.i \in 1..Len(clean) /\ ~clean[c.i] THEN "drift" ELSE "law" IN
       IF r.res # c.res THEN <<"iter:" \o grade \o ":step-" \o ToString(k) \o ":" \o c.op>>
       ELSE LET changed == c.op \in {"mutate", "enter", "exit", "reg"} /\ r.res # NOOP
                cl1 == IF changed THEN [i \in 1..Len(clean) |-> FALSE] ELSE clean
                cl2 == IF c.op = "create" THEN Append(cl1, c.pk # "raiseat") ELSE cl1 IN
            Replay(r.st, calls, k + 1, cl2)
=============================================================================
