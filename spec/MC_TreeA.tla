---- MODULE MC_TreeA ----
(* alphabet A: plain containers with a small mixed key universe (int, str, unorderable) *)
EXTENDS TreeLaws
MCKeyU == { <<KINT, 1>>, <<KSTR, 1>>, <<KUNORD, 1>> }
MCNtCls == (11 :> [k |-> "nt", arity |-> 2] @@ 12 :> [k |-> "nt", arity |-> 1] @@ 21 :> [k |-> "ss", arity |-> 2])
MCCustomCls == (1 :> [hasent |-> FALSE] @@ 2 :> [hasent |-> TRUE] @@ 4 :> [hasent |-> FALSE])
MCReg0 == << <<"", 1>>, <<"a", 2>>, <<"a", 3>>, <<"b", 3>> >>
MCModeSet == { <<>>, <<"">>, <<"a">> }
MCPredSet == { [haspred |-> FALSE, pk |-> <<>>, pi |-> <<>>],
               [haspred |-> TRUE, pk |-> <<"tuple">>, pi |-> <<>>],
               [haspred |-> TRUE, pk |-> <<"dict", "custom", "deque">>, pi |-> <<2>>] }
====
