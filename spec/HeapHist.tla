------------------------------ MODULE HeapHist ------------------------------
(***************************************************************************)
(* C14: a treespec is an immutable value independent of its source tree    *)
(* and of the registry.  A small heap model: the source containers, the     *)
(* treespec's own copy of the structure, and the lists it hands out.  The   *)
(* design says: hand-outs are fresh copies, operand uses do not write, the  *)
(* treespec keeps its registration.  `Aliased` names the hand-out methods   *)
(* or operand uses that (wrongly) share storage with the treespec: empty in *)
(* the design; with a non-empty set TLC produces the history that exposes   *)
(* the alias - the same histories are replayed on the real code with a full *)
(* re-observation of the treespec after every step.                         *)
(***************************************************************************)
EXTENDS Naturals, Integers, Sequences, FiniteSets, TLC

CONSTANTS MaxLen,
          Aliased          \* subset of Actions that alias the treespec's internals (the design: {})

HandOut == {"paths", "accessors", "entries", "children", "child", "one_level", "leaves", "getstate"}
Operand == {"eq", "is_prefix", "compose", "transform", "broadcast_ok", "broadcast_fail", "flatten_up_to_ok", "flatten_up_to_fail",
            "constructor", "unflatten", "pickle", "walk_readonly"}
Registry == {"unregister", "reregister"}
Life == {"mutate_source", "delete_tree", "gc"}
Actions == {"mutate_" \o h : h \in HandOut} \cup {"use_" \o o : o \in Operand} \cup Registry \cup Life

VARIABLES spec,      \* the treespec's structure (version number of its content: 0 = as created)
          source,    \* version of the source tree's content (0 = as when flattened; "gone" = -1)
          registered,\* is the custom type the treespec mentions currently registered (with which registration id)
          regid,
          hist
hvars == <<spec, source, registered, regid, hist>>

HInit == spec = 0 /\ source = 0 /\ registered = TRUE /\ regid = 1 /\ hist = <<>>

Do(a) ==
  /\ hist' = Append(hist, a)
  /\ spec' = IF a \in Aliased THEN spec + 1 ELSE spec            \* only an alias lets anything write into the treespec
  /\ source' = CASE a = "mutate_source" /\ source >= 0 -> source + 1
                 [] a = "delete_tree" -> 0 - 1
                 [] OTHER -> source
  /\ registered' = CASE a = "unregister" -> FALSE [] a = "reregister" -> TRUE [] OTHER -> registered
  /\ regid' = IF a = "reregister" THEN regid + 1 ELSE regid
Enabled(a) == /\ a = "unregister" => registered
              /\ a = "reregister" => ~registered
              /\ a = "mutate_source" => source >= 0
              /\ a = "delete_tree" => source >= 0
HNext == Len(hist) < MaxLen /\ \E a \in Actions : Enabled(a) /\ Do(a)
HSpec == HInit /\ [][HNext]_hvars

\* the observation of the treespec is constant along every history
Immutable == spec = 0
=============================================================================
