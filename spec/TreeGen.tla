------------------------------ MODULE TreeGen ------------------------------
(***************************************************************************)
(* Generator machine: builds forests of pytrees bottom-up (post-order), so *)
(* every forest has exactly one build history and TLC never revisits a     *)
(* state.  The reachable states ARE the quantifier "all pytrees up to N    *)
(* nodes" (top of stack), "all pairs" (top two), "all triples" (top three).*)
(* The laws of TreeLaws are evaluated by TLC as invariants in every state; *)
(* the states are dumped and replayed against the real optree.             *)
(***************************************************************************)
EXTENDS PyTreeSem

CONSTANTS MaxNodes,      \* node budget of the whole forest
          MaxStack,      \* 1 = single trees, 2 = pairs, 3 = triples
          MaxArity,
          Kinds,         \* subset of {"none","tuple","list","dict","odict","ddict","deque","nt","ss","custom","sub"}
          KeyU,          \* key universe for dict kinds
          NtCls,         \* function: namedtuple / structseq class id -> [k, arity]
          CustomCls,     \* function: custom class id -> [hasent]
          Metas,         \* metadata ids for custom nodes
          MaxLens,       \* deque maxlen encodings (0 = None, m+1 = maxlen m)
          Factories,     \* defaultdict factory ids (0 = None)
          Faults         \* malformed custom flatten results to inject ({} = none); at most one fault per forest

VARIABLES stack, used
vars == <<stack, used>>

Mk(k, id, ch, keys, meta, cls, ent, hasent) ==
  [k |-> k, id |-> id, ch |-> ch, keys |-> keys, meta |-> meta, cls |-> cls, ent |-> ent,
   hasent |-> hasent, fault |-> ""]

InjSeqs(S, n) == {s \in [1..n -> S] : \A i, j \in 1..n : i # j => s[i] # s[j]}

Init == stack = <<>> /\ used = 0

Push(t) == stack' = Append(stack, t) /\ used' = used + 1

PushLeaf == used < MaxNodes /\ Len(stack) < MaxStack /\ Push(PlainLeaf(used + 1))
PushNone == "none" \in Kinds /\ used < MaxNodes /\ Len(stack) < MaxStack
            /\ Push(NoneTree)
PushSub  == "sub" \in Kinds /\ used < MaxNodes /\ Len(stack) < MaxStack
            /\ \E c \in {31, 32} : Push([PlainLeaf(used + 1) EXCEPT !.k = "sub", !.cls = c])

\* pop n trees and wrap them
WrapWith(n, t) == stack' = Append(SubSeq(stack, 1, Len(stack) - n), t) /\ used' = used + 1
Kids(n) == SubSeq(stack, Len(stack) - n + 1, Len(stack))

WrapSeq(k, n) ==
  /\ k \in Kinds \cap {"tuple", "list"}
  \* the empty tuple is a CPython singleton: it has no identity of its own (id -1)
  /\ WrapWith(n, Mk(k, IF k = "tuple" /\ n = 0 THEN 0 - 1 ELSE used + 1, Kids(n), <<>>, 0, 0, <<>>, FALSE))
WrapDeque(n) ==
  /\ "deque" \in Kinds
  /\ \E m \in MaxLens : (m = 0 \/ m - 1 >= n) /\ WrapWith(n, Mk("deque", used + 1, Kids(n), <<>>, m, 0, <<>>, FALSE))
WrapDict(k, n) ==
  /\ k \in Kinds \cap {"dict", "odict"}
  /\ \E ks \in InjSeqs(KeyU, n) : WrapWith(n, Mk(k, used + 1, Kids(n), ks, 0, 0, <<>>, FALSE))
WrapDDict(n) ==
  /\ "ddict" \in Kinds
  /\ \E ks \in InjSeqs(KeyU, n), f \in Factories : WrapWith(n, Mk("ddict", used + 1, Kids(n), ks, f, 0, <<>>, FALSE))
WrapNT(n) ==
  \E c \in DOMAIN NtCls :
    /\ NtCls[c].k \in Kinds /\ NtCls[c].arity = n
    /\ WrapWith(n, Mk(NtCls[c].k, used + 1, Kids(n), <<>>, 0, c, <<>>, FALSE))
WrapCustom(n) ==
  /\ "custom" \in Kinds
  /\ \E c \in DOMAIN CustomCls, m \in Metas :
       WrapWith(n, Mk("custom", used + 1, Kids(n), <<>>, m, c,
                      IF CustomCls[c].hasent THEN [i \in 1..n |-> <<KSTR, i>>] ELSE <<>>,
                      CustomCls[c].hasent))

RECURSIVE HasFault(_)
HasFault(t) == t.fault # "" \/ \E i \in DOMAIN t.ch : HasFault(t.ch[i])
WrapFaulty(n) ==
  /\ "custom" \in Kinds
  /\ \A i \in DOMAIN stack : ~HasFault(stack[i])
  /\ \E f \in Faults :
       /\ (f = "entshort" => n >= 1)          \* "fewer entries than children" needs a child
       /\ WrapWith(n, [Mk("custom", used + 1, Kids(n), <<>>, 1, 1, <<>>, FALSE) EXCEPT !.fault = f])

Wrap == /\ used < MaxNodes
        /\ \E n \in 0..MaxArity :
             /\ n <= Len(stack)
             /\ \/ \E k \in {"tuple", "list"} : WrapSeq(k, n)
                \/ WrapDeque(n)
                \/ \E k \in {"dict", "odict"} : WrapDict(k, n)
                \/ WrapDDict(n)
                \/ WrapNT(n)
                \/ WrapCustom(n)
                \/ WrapFaulty(n)

Next == PushLeaf \/ PushNone \/ PushSub \/ Wrap
Spec == Init /\ [][Next]_vars

Top == stack[Len(stack)]
=============================================================================
