------------------------------ MODULE TreeLaws ------------------------------
(***************************************************************************)
(* Laws of layer D that TLC checks on every generated tree / pair / triple *)
(* (C01-C04, C06-C09).  They are theorems about the reference semantics;   *)
(* the conformance runs then check the code against the same operators.    *)
(***************************************************************************)
EXTENDS TreeGen

CONSTANTS Reg0,      \* the registry world: sequence of <<ns, class id>>
          NsSet,     \* namespaces to flatten in
          ModeSet,   \* set of mode sequences
          PredSet,   \* set of predicates [haspred, pk, pi]
          Depth      \* MaxDepth for the model

Cfgs == {[nil |-> n, ns |-> s, haspred |-> p.haspred, pk |-> p.pk, pi |-> p.pi, modes |-> m,
          reg |-> Reg0, maxdepth |-> Depth] : n \in BOOLEAN, s \in NsSet, p \in PredSet, m \in ModeSet}
NoPred(c) == [c EXCEPT !.haspred = FALSE]
\* pair/triple laws are checked without predicate (the predicate only changes which subtrees count as leaves)
PairCfgs == {c \in Cfgs : ~c.haspred /\ c.ns # "zz"}

F(t, c) == Flatten(t, c)
Pool(t) == SubTrees(t)

RT1(t, c) == LET f == F(t, c) IN
             /\ ~IsErr(f)
             /\ WellFormed(f.spec.nodes)
             /\ LET u == Unflatten(f.spec, f.leaves, Pool(t)) IN
                ~IsErr(u) /\ Strip(u.tree, c) = Strip(t, c)
RT2(t, c) == LET f == F(t, c)
                 u == Unflatten(f.spec, f.leaves, Pool(t))
             IN F(u.tree, c) = f
\* replacement leaves: fresh opaque objects in reverse order
RT3(t, c) == LET f == F(t, c)
                 n == Len(f.leaves)
                 r == [i \in 1..n |-> 1000 + n - i]
                 u == Unflatten(f.spec, r, {})
             IN /\ ~IsErr(u) /\ F(u.tree, c).leaves = r /\ F(u.tree, c).spec = f.spec
                /\ IsErr(Unflatten(f.spec, Append(r, 2000), {}))
                /\ n > 0 => IsErr(Unflatten(f.spec, Tail(r), {}))

PathLaw(t, c) == LET f == F(t, c)
                     ps == Paths(f.spec)
                 IN /\ Len(ps) = Len(f.leaves) /\ Len(ps) = NumLeaves(f.spec)
                    /\ PrefixFree(ps)
                    /\ \A i \in DOMAIN ps : LeafId(Access(t, ps[i], c)) = f.leaves[i]
                    /\ Len(TypedPaths(f.spec)) = Len(ps)
                    /\ \A i \in DOMAIN ps : [j \in DOMAIN ps[i] |-> TypedPaths(f.spec)[i][j].e] = ps[i]

ChildrenLaw(t, c) == LET s == F(t, c).spec
                         cs == Children(s)
                     IN /\ Len(cs) = NumChildren(s)
                        /\ NumNodes(s) > 1 =>
                             /\ SeqSum([i \in DOMAIN cs |-> NumLeaves(cs[i])]) = NumLeaves(s)
                             /\ SeqSum([i \in DOMAIN cs |-> NumNodes(cs[i])]) = NumNodes(s) - 1
                        /\ \A i \in DOMAIN cs : WellFormed(cs[i].nodes)
                        /\ Concat([i \in DOMAIN cs |-> cs[i].nodes]) \o <<Root(s)>> = s.nodes
                        /\ Child(s, Len(cs)).err = "Index" /\ Child(s, 0 - Len(cs) - 1).err = "Index"
                        /\ \A i \in DOMAIN cs : Child(s, i - 1).v = cs[i] /\ Child(s, i - 1 - Len(cs)).v = cs[i]
                        \* rebuilding the root from its one-level spec and its children
                        /\ ~IsLeafSpec(s, FALSE) =>
                             LET ol == OneLevel(s) IN
                             /\ IsOneLevel(ol) /\ WellFormed(ol.nodes)
                             /\ Len(Children(ol)) = Len(cs)

\* C02: nil=False leaves are the nil=True leaves without the Nones
NoneLaw(t, c) == LET a == F(t, [c EXCEPT !.nil = FALSE]).leaves
                     b == F(t, [c EXCEPT !.nil = TRUE]).leaves
                 IN ~PredLeaf(NoneTree, c) => a = SelectSeq(b, LAMBDA x : x # 0)
\* C02: flattening the leaves obtained under a predicate yields the leaves obtained without it
PredLaw(t, c) == LET a == F(t, c).leaves
                     parts == [i \in DOMAIN a |-> F(Resolve(a[i], Pool(t)), NoPred(c)).leaves]
                 IN Concat(parts) = F(t, NoPred(c)).leaves

\* C02: dicts that are equal as mappings flatten alike, whatever the insertion order (sorted mode, sortable keys)
RECURSIVE Canon(_)
Canon(t) == LET kids == [i \in DOMAIN t.ch |-> Canon(t.ch[i])] IN
            IF t.k \in {"dict", "ddict"}
            THEN LET sk == TotalOrderSorted(t.keys) IN
                 [t EXCEPT !.keys = sk, !.ch = [i \in DOMAIN sk |-> kids[IndexOf(sk[i], t.keys)]]]
            ELSE [t EXCEPT !.ch = kids]
RECURSIVE Sortable(_)
Sortable(t) == /\ t.k \in {"dict", "ddict"} => ((AllComparable(t.keys) \/ SameTypeComparable(t.keys)) /\ NoTies(t.keys))
               /\ \A i \in DOMAIN t.ch : Sortable(t.ch[i])
PermLaw(t, c) == (~Ordered(c) /\ Sortable(t)) =>
                   LET a == F(t, c)  b == F(Canon(t), c) IN
                   a.leaves = b.leaves /\ SpecEq(a.spec, b.spec) /\ HashKeyDoc(a.spec) = HashKeyDoc(b.spec)

\* C02: classification rules that do not depend on the registry state
ClassLaw(t, c) == \A s \in SubTrees(t) :
                    /\ s.k = "sub" => KindOf(s, c) = "leaf"
                    /\ s.k \in {"nt", "ss", "tuple", "list", "dict", "odict", "ddict", "deque"} => KindOf(s, c) = s.k
                    /\ s.k = "custom" => (KindOf(s, c) = "custom" <=> Registered(c, s.cls))
                    /\ s.k = "none" => (KindOf(s, c) = "leaf" <=> c.nil)
                    /\ PredLeaf(s, c) => Flatten(s, c).leaves = <<LeafId(s)>>

\* C03: the entry points are separate traversals in the code; in layer D they are all defined from Flatten, so the
\* model-level content of C03 is (i) the treespec-only walkers agree with the tree walk, (ii) counts, (iii) IsLeaf,
\* (iv) a single malformed custom node yields the documented error class wherever it sits.
EntryLaw(t, c) ==
  LET f == F(t, c) IN
  IF IsErr(f)
  THEN /\ HasFault(t)
       /\ f.err \in {"Runtime", "Type"}
  ELSE /\ Len(Paths(f.spec)) = Len(f.leaves) /\ Len(TypedPaths(f.spec)) = Len(f.leaves)
       /\ NumLeaves(f.spec) = Len(f.leaves)
       /\ (PredLeaf(t, c) \/ KindOf(t, c) = "leaf") <=> (f.leaves = <<LeafId(t)>> /\ f.spec.nodes = <<LeafNode>>)
       \* a fault below a predicate leaf / unregistered namespace is never reached
       /\ \A i \in DOMAIN f.leaves : f.leaves[i] = LeafId(Access(t, Paths(f.spec)[i], c))
InvC03 == Len(stack) = 1 => \A c \in Cfgs : EntryLaw(Top, c)

\* C11: loading in a process whose registry is any sub-world of Reg0
SubWorlds == {SelectSeq(Reg0, LAMBDA r : r \in S) : S \in SUBSET {Reg0[i] : i \in DOMAIN Reg0}}
PickleLaw(t, c) ==
  LET s == F(t, c).spec IN
  \A w \in SubWorlds :
     LET u == Unpickle(s, w)
         fresh == Flatten(t, [c EXCEPT !.reg = w]) IN
     IF IsErr(u) THEN \E x \in SubTrees(t) : x.k = "custom" /\ Registered(c, x.cls) /\ ~RegIn(w, c.ns, x.cls)
     ELSE /\ u.spec = s
          \* ... and it is the treespec flattened afresh in the loading process, whenever that process classifies the tree alike
          /\ (\A x \in SubTrees(t) : x.k = "custom" => (Registered(c, x.cls) <=> RegIn(w, c.ns, x.cls))) => fresh.spec = s
InvC11 == Len(stack) = 1 => \A c \in Cfgs : PickleLaw(Top, c)

InvC01 == Len(stack) = 1 => \A c \in Cfgs : RT1(Top, c) /\ RT2(Top, c) /\ RT3(Top, c)
InvC02 == Len(stack) = 1 => \A c \in Cfgs : NoneLaw(Top, c) /\ PredLaw(Top, c) /\ PermLaw(Top, c) /\ ClassLaw(Top, c)
InvC04 == Len(stack) = 1 => \A c \in Cfgs : PathLaw(Top, c)
InvC08s == Len(stack) = 1 => \A c \in Cfgs : ChildrenLaw(Top, c)
Single(t) == \A c \in Cfgs :
               RT1(t, c) /\ RT2(t, c) /\ RT3(t, c) /\ PathLaw(t, c) /\ ChildrenLaw(t, c)
               /\ NoneLaw(t, c) /\ PredLaw(t, c) /\ PermLaw(t, c) /\ ClassLaw(t, c)

SingleInv == Len(stack) = 1 => Single(Top)   \* every tree is the sole element of exactly one state

(* pairs *)
S(t, c) == F(t, c).spec
RECURSIVE Subst(_, _, _)
\* a-shaped tree whose leaves (under c) are replaced by tree b
Subst(a, b, c) == IF PredLeaf(a, c) \/ KindOf(a, c) = "leaf" THEN b
                  ELSE [a EXCEPT !.ch = [i \in DOMAIN a.ch |-> Subst(a.ch[i], b, c)]]

EqLaw(a, b, c) ==
  LET sa == S(a, c)  sb == S(b, c) IN
  /\ SpecEq(sa, sa)
  /\ SpecEq(sa, sb) = SpecEq(sb, sa)
  /\ SpecEq(sa, sb) => HashKeyDoc(sa) = HashKeyDoc(sb)
  /\ SpecEq(sa, sb) => SpecPrefix(sa, sb, FALSE) /\ SpecPrefix(sb, sa, FALSE)
  \* equality is blind to leaf identity and to dict insertion order (sorted mode, sortable keys)
  /\ (~Ordered(c) /\ Sortable(a) /\ Sortable(b) /\ Canon(Strip(a, c)) = Canon(Strip(b, c))) => SpecEq(sa, sb)

PrefixLaw(a, b, c) ==
  LET sa == S(a, c)  sb == S(b, c) IN
  /\ SpecPrefix(sa, sa, FALSE) /\ ~SpecPrefix(sa, sa, TRUE)
  \* definitions of "prefix" agree (spec/spec, spec/tree)
  /\ SpecPrefix(sa, sb, FALSE) <=> ~IsErr(FlattenUpTo(sa, b, c))
  /\ SpecPrefix(sa, sb, FALSE) =>
        LET subs == FlattenUpTo(sa, b, c).subs IN
        /\ Len(subs) = NumLeaves(sa)
        \* the returned subtrees partition b's leaves (in a's leaf order, which may differ from b's for re-ordered dicts)
        /\ LET got == Concat([i \in DOMAIN subs |-> F(subs[i], c).leaves]) IN
           Len(got) = Len(F(b, c).leaves) /\ Range(got) = Range(F(b, c).leaves)
        /\ \A i \in DOMAIN subs : subs[i] = Access(b, Paths(sa)[i], c)
  \* a < b  iff  a <= b and not b <= a  (b has a non-leaf node where a has a leaf)
  /\ SpecPrefix(sa, sb, TRUE) <=> (SpecPrefix(sa, sb, FALSE) /\ ~SpecPrefix(sb, sa, FALSE))
  \* antisymmetry up to dict kind / key order / maxlen
  /\ (SpecPrefix(sa, sb, FALSE) /\ SpecPrefix(sb, sa, FALSE)) => NumNodes(sa) = NumNodes(sb) /\ NumLeaves(sa) = NumLeaves(sb)

LubLaw(a, b, c) ==
  LET sa == S(a, c)  sb == S(b, c)  l == Lub(sa, sb) IN
     /\ IsErr(l) = IsErr(Lub(sb, sa))
     /\ ~IsErr(l) => /\ WellFormed(l.spec.nodes)
                     /\ SpecPrefix(sa, l.spec, FALSE) /\ SpecPrefix(sb, l.spec, FALSE)
                     /\ SpecPrefix(l.spec, Lub(sb, sa).spec, FALSE) /\ SpecPrefix(Lub(sb, sa).spec, l.spec, FALSE)
                     /\ Lub(l.spec, sb).spec = l.spec /\ Lub(l.spec, sa).spec = l.spec
                     /\ NumNodes(l.spec) <= NumNodes(sa) + NumNodes(sb)
     /\ SpecPrefix(sa, sb, FALSE) => ~IsErr(l) /\ SpecPrefix(l.spec, sb, FALSE) /\ SpecPrefix(sb, l.spec, FALSE)
     /\ IsErr(l) => ~SpecPrefix(sa, sb, FALSE) /\ ~SpecPrefix(sb, sa, FALSE)
     /\ Lub(sa, sa).spec = sa

ComposeLaw(a, b, c) ==
  LET sa == S(a, c)  sb == S(b, c)  cp == Compose(sa, sb) IN
     /\ ~IsErr(cp)
     /\ WellFormed(cp.spec.nodes)
     /\ NumLeaves(cp.spec) = NumLeaves(sa) * NumLeaves(sb)
     /\ cp.spec.nodes = S(Subst(a, b, c), c).nodes
     /\ SpecPrefix(sa, cp.spec, FALSE)

\* C10: transposing an outer-of-inner leaf vector twice is the identity; the value at (inner j, outer i) is the input's (i, j)
TransposeLaw(a, b, c) ==
  LET so == S(a, c)  si == S(b, c)  m == NumLeaves(so)  n == NumLeaves(si)
      xs == [k \in 1..(m * n) |-> 5000 + k]
      t1 == Transpose(so, si, xs)
  IN IF m = 0 \/ n = 0 THEN IsErr(t1)
     ELSE /\ ~IsErr(t1)
          /\ \A i \in 1..m, j \in 1..n : t1.leaves[(j - 1) * m + i] = xs[(i - 1) * n + j]
          /\ Transpose(si, so, t1.leaves).leaves = xs
          /\ t1.spec = Compose(si, so).spec /\ NumLeaves(t1.spec) = m * n
          /\ IsErr(Transpose(so, si, Append(xs, 1)))
          \* the leaves of the a-of-b tree, regrouped, are the leaves of the b-of-a tree
          /\ Len(t1.leaves) = Len(xs) /\ Range(t1.leaves) = Range(xs)
InvC10 == Len(stack) = 2 => \A c \in PairCfgs : TransposeLaw(stack[1], stack[2], c)

PairLaw(a, b, c) == EqLaw(a, b, c) /\ PrefixLaw(a, b, c) /\ LubLaw(a, b, c) /\ ComposeLaw(a, b, c)

InvC06 == Len(stack) = 2 => \A c \in PairCfgs : EqLaw(stack[1], stack[2], c)
InvC07 == Len(stack) = 2 => \A c \in PairCfgs : PrefixLaw(stack[1], stack[2], c)
InvC09 == Len(stack) = 2 => \A c \in PairCfgs : LubLaw(stack[1], stack[2], c)
InvC08p == Len(stack) = 2 => \A c \in PairCfgs : ComposeLaw(stack[1], stack[2], c)
PairInv == Len(stack) = 2 => \A c \in PairCfgs : PairLaw(stack[1], stack[2], c)   \* (b,a) is another state

TripleLaw(a, b, d, c) ==
  LET sa == S(a, c)  sb == S(b, c)  sd == S(d, c) IN
  /\ (SpecPrefix(sa, sb, FALSE) /\ SpecPrefix(sb, sd, FALSE)) => SpecPrefix(sa, sd, FALSE)
  /\ (SpecEq(sa, sb) /\ SpecEq(sb, sd)) => SpecEq(sa, sd)
  \* n-ary broadcast: two passes of pairwise lub give the lub of all three
  /\ LET l1 == Lub(sa, sb) IN
     ~IsErr(l1) => LET l2 == Lub(l1.spec, sd) IN
                   ~IsErr(l2) => /\ SpecPrefix(sa, l2.spec, FALSE) /\ SpecPrefix(sb, l2.spec, FALSE) /\ SpecPrefix(sd, l2.spec, FALSE)
                                 /\ LET r == Lub(sd, Lub(sb, sa).spec) IN
                                    ~IsErr(r) /\ SpecPrefix(r.spec, l2.spec, FALSE) /\ SpecPrefix(l2.spec, r.spec, FALSE)
TripleInv == Len(stack) = 3 => \A c \in PairCfgs : TripleLaw(stack[1], stack[2], stack[3], c)
=============================================================================
