---- MODULE MC_Pair ----
EXTENDS PairGen
MCKeyU == { <<KINT, 1>>, <<KSTR, 1>>, <<KSTR, 2>> }
MCNtCls == (11 :> [k |-> "nt", arity |-> 2] @@ 12 :> [k |-> "nt", arity |-> 1] @@ 21 :> [k |-> "ss", arity |-> 2])
MCCustomCls == (1 :> [hasent |-> FALSE] @@ 2 :> [hasent |-> TRUE])
MCReg0 == << <<"", 1>>, <<"a", 2>>, <<"a", 3>>, <<"b", 3>> >>
MCModeSet == { <<>>, <<"a">> }
MCPredSet == { [haspred |-> FALSE, pk |-> <<>>, pi |-> <<>>] }
====
