SPECIFICATION TESpec
CONSTANTS
  Scenarios = {}
  Ops = {}
  MaxFault = 0
INVARIANT Accepted
CHECK_DEADLOCK FALSE
