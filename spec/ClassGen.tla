------------------------------ MODULE ClassGen ------------------------------
(***************************************************************************)
(* C18: classification of classes (namedtuple / struct sequence) by the    *)
(* engine, which memoises answers per type ADDRESS with weak-reference     *)
(* eviction and a capacity cap, and by the pure-Python twins.              *)
(*                                                                         *)
(* A class is a trait vector; the ground-truth rule is a function of the   *)
(* traits alone.  The cache machine shows why eviction on death is needed: *)
(* with Evict = FALSE TLC produces the stale-address counterexample, which *)
(* is the history the conformance run must provoke (thousands of transient *)
(* classes so that addresses are reused and the cap is exceeded).          *)
(***************************************************************************)
EXTENDS Naturals, Integers, Sequences, FiniteSets, TLC

CONSTANTS Slots,        \* address slots (2..3)
          Cap,          \* cache capacity
          Evict,        \* BOOLEAN: the weak-reference callback erases the entry when the class dies
          MaxOps

FieldsKinds == {"absent", "tuple_of_str", "tuple_with_nonstr", "list_of_str", "tuplesubclass_of_str", "empty_tuple"}
AttrKinds == {"callable", "noncallable", "absent"}
Traits == [tuplesub : BOOLEAN, fields : FieldsKinds, make : AttrKinds, asdict : AttrKinds]
\* a few representative vectors keep the cache machine small; the trait SPACE is enumerated exhaustively by AllTraits below
Rep == {[tuplesub |-> TRUE, fields |-> "tuple_of_str", make |-> "callable", asdict |-> "callable"],
        [tuplesub |-> TRUE, fields |-> "absent", make |-> "callable", asdict |-> "callable"],
        [tuplesub |-> FALSE, fields |-> "tuple_of_str", make |-> "callable", asdict |-> "callable"]}

\* ground truth: a namedtuple class is a tuple subclass whose _fields is an exact tuple of exact str and which has callable _make / _asdict
IsNamedTuple(tr) == tr.tuplesub /\ tr.fields \in {"tuple_of_str", "empty_tuple"} /\ tr.make = "callable" /\ tr.asdict = "callable"
AllTraits == Traits

NoClass == [tuplesub |-> FALSE, fields |-> "none", make |-> "absent", asdict |-> "absent"]     \* no live class at the slot
B2S(b) == IF b THEN "T" ELSE "F"

VARIABLES live,     \* slot -> trait vector or NoClass
          cache,    \* slot -> cached answer "T" / "F" or "none"
          last,     \* the last query: [slot, answer, truth]
          nops, hist
cvars == <<live, cache, last, nops, hist>>

CInit == /\ live = [s \in Slots |-> NoClass] /\ cache = [s \in Slots |-> "none"]
         /\ last = [slot |-> 0, answer |-> FALSE, truth |-> FALSE] /\ nops = 0 /\ hist = <<>>

CacheSize == Cardinality({s \in Slots : cache[s] # "none"})
Create(s, tr) == /\ live[s] = NoClass /\ live' = [live EXCEPT ![s] = tr]
                 /\ hist' = Append(hist, <<"create", s, tr>>) /\ UNCHANGED <<cache, last>>
Query(s) == /\ live[s] # NoClass
            /\ LET truth == IsNamedTuple(live[s])
                   ans == IF cache[s] # "none" THEN cache[s] = "T" ELSE truth IN
               /\ last' = [slot |-> s, answer |-> ans, truth |-> truth]
               /\ cache' = IF cache[s] = "none" /\ CacheSize < Cap THEN [cache EXCEPT ![s] = B2S(truth)] ELSE cache
            /\ hist' = Append(hist, <<"query", s, live[s]>>) /\ UNCHANGED live
Destroy(s) == /\ live[s] # NoClass /\ live' = [live EXCEPT ![s] = NoClass]
              /\ cache' = IF Evict THEN [cache EXCEPT ![s] = "none"] ELSE cache
              /\ hist' = Append(hist, <<"destroy", s, live[s]>>) /\ UNCHANGED last
CNext == /\ nops < MaxOps /\ nops' = nops + 1
         /\ \E s \in Slots : Query(s) \/ Destroy(s) \/ \E tr \in Rep : Create(s, tr)
CSpec == CInit /\ [][CNext]_cvars

\* the answer never depends on what was classified before, on the cache being full, or on address reuse
AnswerIsTruth == last.answer = last.truth
\* the cache only ever holds answers of live classes (that is what makes address reuse harmless)
CacheOnlyLive == \A s \in Slots : cache[s] # "none" => (live[s] # NoClass /\ cache[s] = B2S(IsNamedTuple(live[s])))
=============================================================================
