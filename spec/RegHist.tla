------------------------------ MODULE RegHist ------------------------------
(***************************************************************************)
(* History generator over the Registry machine (C12, C13): every sequence  *)
(* of calls up to a length bound, including argument faults, duplicate /   *)
(* absent / built-in registrations, warnings-as-errors, nested and sibling *)
(* with-blocks with normal and exceptional exits.  `hist` records the      *)
(* calls so that each reachable state carries its own replayable history;  *)
(* the invariants and action properties of Registry are checked on all.    *)
(***************************************************************************)
EXTENDS Registry

CONSTANTS MaxLen,       \* history length
          Family        \* "reg" (C12), "ctx" (C13) or "both"

VARIABLES hist, snaps   \* snaps: ghost stack, modes at each Enter (for the restoration property)
hvars == <<regN, regL, mirror, gen, modes, ctx, last, hist, snaps>>

HInit == Init /\ hist = <<>> /\ snaps = <<>>

RegTypes == {ty \in Types : Registrable(ty)}
GoodNs == RegNs \cap {"GLOBAL", "a", "b"}

RegAction ==
  \/ \E ty \in RegTypes, ns \in GoodNs, wae \in BOOLEAN : Register(ty, ns, "ok", wae)
  \/ \E ty \in RegTypes, ns \in GoodNs : Unregister(ty, ns)
  \* argument faults (their outcome does not depend on the registry state; one representative each)
  \/ \E ty \in Types \ RegTypes : Register(ty, "a", "ok", FALSE) \/ Unregister(ty, "a")
  \/ \E ns \in RegNs \ GoodNs : Register(1, ns, "ok", FALSE) \/ Unregister(1, ns)
  \/ Register(1, "a", "bad", FALSE) \/ Register(6, "", "bad", TRUE)

CtxAction ==
  \/ \E m \in BOOLEAN, ns \in GoodNs : Enter(m, ns)
  \/ \E ns \in RegNs \ GoodNs : Enter(TRUE, ns)
  \/ Exit(1, FALSE)
  \/ \E n \in 1..MaxDepth : Exit(n, TRUE)

HNext == /\ Len(hist) < MaxLen
         /\ \/ Family \in {"reg", "both"} /\ RegAction /\ UNCHANGED snaps
            \/ Family \in {"ctx", "both"} /\ CtxAction
               /\ snaps' = IF last'.op = "enter" /\ last'.res = "" THEN Append(snaps, modes)
                           ELSE IF last'.op \in {"exit", "raise"} THEN SubSeq(snaps, 1, Len(snaps) - last'.ty)
                           ELSE snaps
         /\ hist' = Append(hist, last')
HSpec == HInit /\ [][HNext]_hvars

\* C13: when a block exits - normally or by exception, at any depth - the modes are what they were when it was entered
RestoreStep == (last'.op \in {"exit", "raise"}) => modes' = snaps[Len(snaps) - last'.ty + 1]
RestoreProp == [][RestoreStep]_hvars
AtomicProp == [][AtomicStep]_hvars
IsolationProp == [][IsolationStep]_hvars
Inv == TypeOK /\ VariantAgree /\ MirrorExact /\ Len(snaps) = Len(ctx)
=============================================================================
