------------------------------ MODULE Threads ------------------------------
(***************************************************************************)
(* Concurrent use of optree on a GIL build (C17).  Threads execute         *)
(* operations that are sequences of engine SEGMENTS; a thread runs only    *)
(* while it holds the GIL, and it can lose the GIL only inside a Python    *)
(* callback made by the engine (is_leaf, custom flatten, key hooks, class  *)
(* attribute hooks consulted by registration, warning hooks).  The C++     *)
(* registry lock is explicit: a thread that has to wait for it either      *)
(* keeps the GIL while waiting (WaitKeepsGil = TRUE: the as-found design,  *)
(* which deadlocks the whole process when the lock holder sits in a        *)
(* callback) or releases it while waiting (FALSE: the repaired design).    *)
(*                                                                         *)
(* Operations (code-shaped segment lists):                                 *)
(*   "flatten"   per visited object: callback is_leaf (outside any lock),  *)
(*               then [read-lock registry; look up; unlock]  (n objects)   *)
(*   "reg_hook"  register a class whose classification runs Python code    *)
(*               (a tuple subclass whose metaclass computes `_fields`):    *)
(*               [write-lock; insert N; callback; insert L; unlock]        *)
(*               - the callback runs while the write lock is held and      *)
(*               between the two inserts                                   *)
(*   "reg"       register a plain class: [write-lock; insert N; insert L;  *)
(*               unlock] - no callback                                     *)
(*   "unreg"     [write-lock; erase N; erase L; unlock]                    *)
(*   "next"      shared leaf iterator: pop one agenda item; callback       *)
(*               is_leaf; deliver it            (k calls per thread)       *)
(***************************************************************************)
EXTENDS Naturals, Integers, Sequences, FiniteSets, TLC

CONSTANTS NThreads,       \* 2 or 3
          OpOf,           \* sequence: operation of each thread
          WaitKeepsGil,   \* BOOLEAN
          NObj,           \* objects visited by a flatten
          NItems,         \* leaves in the shared iterator
          GuardKeyedByThread   \* BOOLEAN: the hash / repr re-entrancy guard is keyed by (treespec, thread) - the design - or by treespec only

T == 1..NThreads

\* segment programs
Prog(o) ==
  CASE o = "flatten" -> [i \in 1..(4 * NObj) |-> CASE i % 4 = 1 -> "cb" [] i % 4 = 2 -> "rlock" [] i % 4 = 3 -> "lookup" [] OTHER -> "runlock"]
    [] o = "reg_hook" -> <<"wlock", "insN", "cb", "insL", "wunlock">>
    [] o = "reg" -> <<"wlock", "insN", "insL", "wunlock">>
    [] o = "unreg" -> <<"wlock", "delN", "delL", "wunlock">>
    [] o = "hash" -> <<"gins", "cb", "gdel">>          \* hash / repr of a shared treespec: re-entrancy guard around user __hash__ / __repr__
    [] o = "next" -> [i \in 1..(3 * NItems) |-> CASE i % 3 = 1 -> "pop" [] i % 3 = 2 -> "cb" [] OTHER -> "deliver"]

VARIABLES pc,         \* pc[t]: index of the next segment of thread t
          gil,        \* holder of the GIL (0 = free)
          writer,     \* holder of the registry write lock (0 = none)
          readers,    \* holders of the read lock
          waiting,    \* waiting[t]: thread t is blocked on the registry lock
          incb,       \* incb[t]: thread t is inside a callback and has released the GIL
          regN, regL, \* the registered flag of the one contended type in the two engine variants
          seen,       \* seen[t]: sequence of lookup results <<N, L>> observed by thread t
          agenda, hand, got,   \* shared iterator: remaining items; item in thread t's hands; delivered items per thread
          guard,      \* re-entrancy guard set of hash / repr: keys <<treespec, thread>> (one shared treespec here)
          reent,      \* reent[t]: thread t found "its" key already present (it would then return 0 / "..." instead of the value)
          sched       \* history: which thread moved (the schedule replayed on the real code)
tvars == <<pc, gil, writer, readers, waiting, incb, regN, regL, seen, agenda, hand, got, guard, reent, sched>>

Init == /\ pc = [t \in T |-> 1] /\ gil = 0 /\ writer = 0 /\ readers = {}
        /\ waiting = [t \in T |-> FALSE] /\ incb = [t \in T |-> FALSE]
        /\ regN = FALSE /\ regL = FALSE /\ seen = [t \in T |-> <<>>]
        /\ agenda = [i \in 1..NItems |-> i] /\ hand = [t \in T |-> 0] /\ got = [t \in T |-> <<>>]
        /\ guard = {} /\ reent = [t \in T |-> FALSE]
        /\ sched = <<>>

GuardKey(t) == IF GuardKeyedByThread THEN t ELSE 0
Done(t) == pc[t] > Len(Prog(OpOf[t]))
Seg(t) == Prog(OpOf[t])[pc[t]]
Log(t, a) == sched' = Append(sched, <<t, a>>)

\* taking the GIL: at start, after a callback that released it, or after waiting for the lock without it
TakeGil(t) == /\ gil = 0 /\ ~Done(t) /\ ~waiting[t]
              /\ gil' = t /\ incb' = [incb EXCEPT ![t] = FALSE]
              /\ Log(t, "gil")
              /\ UNCHANGED <<pc, writer, readers, waiting, regN, regL, seen, agenda, hand, got, guard, reent>>

CanW(t) == writer = 0 /\ readers = {}
CanR(t) == writer = 0
\* one engine segment
Step(t) ==
  /\ gil = t /\ ~Done(t) /\ ~incb[t] /\ ~waiting[t]
  /\ LET s == Seg(t) IN
     CASE s = "wlock" ->
            IF CanW(t) THEN /\ writer' = t /\ waiting' = [waiting EXCEPT ![t] = FALSE] /\ pc' = [pc EXCEPT ![t] = @ + 1]
                            /\ UNCHANGED <<gil, readers, regN, regL, seen, agenda, hand, got, incb, guard, reent>>
            ELSE /\ ~waiting[t] /\ waiting' = [waiting EXCEPT ![t] = TRUE]
                 /\ gil' = IF WaitKeepsGil THEN gil ELSE 0          \* blocked inside the C++ mutex
                 /\ UNCHANGED <<pc, writer, readers, regN, regL, seen, agenda, hand, got, incb, guard, reent>>
       [] s = "rlock" ->
            IF CanR(t) THEN /\ readers' = readers \cup {t} /\ waiting' = [waiting EXCEPT ![t] = FALSE] /\ pc' = [pc EXCEPT ![t] = @ + 1]
                            /\ UNCHANGED <<gil, writer, regN, regL, seen, agenda, hand, got, incb, guard, reent>>
            ELSE /\ ~waiting[t] /\ waiting' = [waiting EXCEPT ![t] = TRUE]
                 /\ gil' = IF WaitKeepsGil THEN gil ELSE 0
                 /\ UNCHANGED <<pc, writer, readers, regN, regL, seen, agenda, hand, got, incb, guard, reent>>
       [] s = "wunlock" -> /\ writer' = 0 /\ pc' = [pc EXCEPT ![t] = @ + 1]
                           /\ UNCHANGED <<gil, readers, waiting, regN, regL, seen, agenda, hand, got, incb, guard, reent>>
       [] s = "runlock" -> /\ readers' = readers \ {t} /\ pc' = [pc EXCEPT ![t] = @ + 1]
                           /\ UNCHANGED <<gil, writer, waiting, regN, regL, seen, agenda, hand, got, incb, guard, reent>>
       [] s = "insN" -> /\ regN' = TRUE /\ pc' = [pc EXCEPT ![t] = @ + 1]
                        /\ UNCHANGED <<gil, writer, readers, waiting, regL, seen, agenda, hand, got, incb, guard, reent>>
       [] s = "insL" -> /\ regL' = TRUE /\ pc' = [pc EXCEPT ![t] = @ + 1]
                        /\ UNCHANGED <<gil, writer, readers, waiting, regN, seen, agenda, hand, got, incb, guard, reent>>
       [] s = "delN" -> /\ regN' = FALSE /\ pc' = [pc EXCEPT ![t] = @ + 1]
                        /\ UNCHANGED <<gil, writer, readers, waiting, regL, seen, agenda, hand, got, incb, guard, reent>>
       [] s = "delL" -> /\ regL' = FALSE /\ pc' = [pc EXCEPT ![t] = @ + 1]
                        /\ UNCHANGED <<gil, writer, readers, waiting, regN, seen, agenda, hand, got, incb, guard, reent>>
       [] s = "lookup" -> /\ seen' = [seen EXCEPT ![t] = Append(@, <<regN, regL>>)] /\ pc' = [pc EXCEPT ![t] = @ + 1]
                          /\ UNCHANGED <<gil, writer, readers, waiting, regN, regL, agenda, hand, got, incb, guard, reent>>
       [] s = "pop" -> /\ IF agenda = <<>> THEN hand' = [hand EXCEPT ![t] = 0] /\ UNCHANGED agenda
                          ELSE hand' = [hand EXCEPT ![t] = Head(agenda)] /\ agenda' = Tail(agenda)
                       /\ pc' = [pc EXCEPT ![t] = @ + 1]
                       /\ UNCHANGED <<gil, writer, readers, waiting, regN, regL, seen, got, incb, guard, reent>>
       [] s = "deliver" -> /\ got' = [got EXCEPT ![t] = IF hand[t] = 0 THEN @ ELSE Append(@, hand[t])]
                           /\ hand' = [hand EXCEPT ![t] = 0] /\ pc' = [pc EXCEPT ![t] = @ + 1]
                           /\ UNCHANGED <<gil, writer, readers, waiting, regN, regL, seen, agenda, incb, guard, reent>>
       [] s = "gins" -> /\ reent' = [reent EXCEPT ![t] = GuardKey(t) \in guard] /\ guard' = guard \cup {GuardKey(t)}
                        /\ pc' = [pc EXCEPT ![t] = @ + 1]
                        /\ UNCHANGED <<gil, writer, readers, waiting, regN, regL, seen, agenda, hand, got, incb>>
       [] s = "gdel" -> /\ guard' = guard \ {GuardKey(t)} /\ pc' = [pc EXCEPT ![t] = @ + 1]
                        /\ UNCHANGED <<gil, writer, readers, waiting, regN, regL, seen, agenda, hand, got, incb, reent>>
       [] s = "cb" -> \* a Python callback: either it runs through, or the interpreter switches threads inside it
            \/ /\ pc' = [pc EXCEPT ![t] = @ + 1]
               /\ UNCHANGED <<gil, writer, readers, waiting, regN, regL, seen, agenda, hand, got, incb, guard, reent>>
            \/ /\ incb' = [incb EXCEPT ![t] = TRUE] /\ gil' = 0 /\ pc' = [pc EXCEPT ![t] = @ + 1]
               /\ UNCHANGED <<writer, readers, waiting, regN, regL, seen, agenda, hand, got, guard, reent>>
  /\ Log(t, Seg(t))
\* a thread blocked in the C++ mutex gets it as soon as it is free - with or without the GIL, depending on the design
LockGranted(t) ==
  /\ waiting[t] /\ ~Done(t) /\ (IF WaitKeepsGil THEN gil = t ELSE gil # t)
  /\ \/ Seg(t) = "wlock" /\ CanW(t) /\ writer' = t /\ UNCHANGED readers
     \/ Seg(t) = "rlock" /\ CanR(t) /\ readers' = readers \cup {t} /\ UNCHANGED writer
  /\ waiting' = [waiting EXCEPT ![t] = FALSE] /\ pc' = [pc EXCEPT ![t] = @ + 1]
  /\ Log(t, "granted")
  /\ UNCHANGED <<gil, incb, regN, regL, seen, agenda, hand, got, guard, reent>>
\* a finished thread gives the GIL back
Finish(t) == /\ gil = t /\ Done(t) /\ gil' = 0 /\ Log(t, "end")
             /\ UNCHANGED <<pc, writer, readers, waiting, incb, regN, regL, seen, agenda, hand, got, guard, reent>>

Next == \E t \in T : TakeGil(t) \/ Step(t) \/ LockGranted(t) \/ Finish(t)
Spec == Init /\ [][Next]_tvars

AllDone == \A t \in T : Done(t)
\* ---- properties --------------------------------------------------------------------------------
NoDeadlock == AllDone \/ ENABLED Next
\* a lookup never observes a torn registration: both engine variants agree whenever a reader looks
NoTornLookup == \A t \in T : \A i \in DOMAIN seen[t] : seen[t][i][1] = seen[t][i][2]
\* (the torn state between insN and insL exists, but only while the write lock is held)
TornOnlyUnderLock == regN # regL => writer # 0
\* the shared iterator hands each leaf to exactly one consumer
RECURSIVE FlatGot(_)
FlatGot(ts) == IF ts = {} THEN <<>> ELSE LET t == CHOOSE x \in ts : TRUE IN got[t] \o FlatGot(ts \ {t})
ExactlyOnce == LET g == FlatGot(T) IN
               /\ \A i, j \in DOMAIN g : i # j => g[i] # g[j]
               /\ (AllDone /\ \A t \in T : OpOf[t] = "next") => {g[i] : i \in DOMAIN g} = 1..NItems
\* concurrent registrations of one (type, namespace): the lock serialises them, so exactly one finds the slot free
MutualExclusion == (writer # 0 => readers = {})
\* hash / repr of a treespec shared by several threads: nobody mistakes another thread's call for its own recursion
GuardPrivate == \A t \in T : ~reent[t]
=============================================================================
