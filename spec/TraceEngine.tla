---------------------------- MODULE TraceEngine ----------------------------
(***************************************************************************)
(* Trace validation against the Engine machine (C15, C03, C05): a recorded *)
(* callback trace of a real operation - which callbacks the engine made,   *)
(* in which order, on which objects, and how the call ended - must be a    *)
(* behaviour of Engine for the same scenario, operation and fault index.   *)
(* The machine's own nondeterminism (iterator look-ahead) is explored by   *)
(* TLC; a trace is accepted when some behaviour reproduces the whole log   *)
(* and ends with the logged status.                                        *)
(***************************************************************************)
EXTENDS Engine, Json, IOUtils

Traces == ndJsonDeserialize(IOEnv.TRACES)
VARIABLE tid
tevars == <<sc, op, faultAt, agenda, leaves, nodes, phase, pos, pulled, used, ustack, ev, ncb, status, owned, tid>>

TEInit == /\ tid \in 1..Len(Traces)
          /\ sc = Traces[tid].sc /\ op = Traces[tid].op /\ faultAt = Traces[tid].fault
          /\ agenda = <<Visit(sc.t, 0)>> /\ leaves = <<>> /\ nodes = <<>>
          /\ phase = "flatten" /\ pos = 1 /\ pulled = 0 /\ used = 0 /\ ustack = 0
          /\ ev = <<>> /\ ncb = 0 /\ status = "run" /\ owned = {}

LogPrefix(e, full) == Len(e) <= Len(full) /\ \A i \in DOMAIN e : e[i] = full[i]
TENext == /\ ENext /\ tid' = tid
          /\ LogPrefix(ev', Traces[tid].ev)            \* only behaviours that keep explaining the log
TESpec == TEInit /\ [][TENext]_tevars

Accepted == (status # "run" /\ ev = Traces[tid].ev /\ status = Traces[tid].status) => PrintT(<<"DONE", Traces[tid].tid>>)
=============================================================================
