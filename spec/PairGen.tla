------------------------------ MODULE PairGen ------------------------------
(***************************************************************************)
(* Generator of PAIRS of pytrees (C06, C07, C09, C05 rests): for every     *)
(* forest <<a, s>> of TreeGen the pair set consists of                     *)
(*   <<a, a>>, <<a, s>>,                                                   *)
(*   <<a, a[leaf := s]>> for every leaf (true suffixes),                   *)
(*   <<a, a[one local edit]>> for every node and every edit applicable to  *)
(*        it (near misses and the equivalences: dict kind, key order,      *)
(*        maxlen, factory),                                                *)
(*   and each of those with every dict of b re-ordered (RevAll) so that    *)
(*   re-orderings occur at several depths of one pair at once.             *)
(* The pair set is a derived variable (a function of the stack), so it     *)
(* adds no states; TLC checks the pair laws on all of it and dumps it.     *)
(***************************************************************************)
EXTENDS TreeLaws

VARIABLE obs
pvars == <<stack, used, obs>>

RECURSIVE Nodes(_)
Nodes(t) == {t} \cup UNION {Nodes(t.ch[i]) : i \in DOMAIN t.ch}

RECURSIVE Replace(_, _, _)
Replace(t, id, new) == IF t.id = id THEN new
                       ELSE [t EXCEPT !.ch = [i \in DOMAIN t.ch |-> Replace(t.ch[i], id, new)]]

FreshLeaf == PlainLeaf(999)
FreshKey(ks) == CHOOSE k \in KeyU : ~InSeq(k, ks)
RevSeq(s) == [i \in 1..Len(s) |-> s[Len(s) + 1 - i]]

\* local edits applicable to node n (each yields a replacement node)
EditsOf(n, s) ==
  (IF n.k = "leaf" THEN {s} ELSE {}) \cup
  (IF n.k = "tuple" /\ n.id > 0 THEN {[n EXCEPT !.k = "list"]} ELSE {}) \cup
  (IF n.k = "list" THEN {[n EXCEPT !.k = "tuple", !.id = IF n.ch = <<>> THEN 0 - 1 ELSE n.id]} ELSE {}) \cup
  (IF n.k = "dict" THEN {[n EXCEPT !.k = "odict"], [n EXCEPT !.k = "ddict", !.meta = 1]} ELSE {}) \cup
  (IF n.k = "odict" THEN {[n EXCEPT !.k = "dict"]} ELSE {}) \cup
  (IF n.k = "ddict" THEN {[n EXCEPT !.k = "odict", !.meta = 0], [n EXCEPT !.meta = 1 - n.meta]} ELSE {}) \cup
  (IF IsDictKindName(n.k) /\ Len(n.keys) >= 2 THEN {[n EXCEPT !.keys = RevSeq(n.keys), !.ch = RevSeq(n.ch)]} ELSE {}) \cup
  (IF IsDictKindName(n.k) /\ Len(n.keys) >= 1 /\ \E k \in KeyU : ~InSeq(k, n.keys)
   THEN {[n EXCEPT !.keys[1] = FreshKey(n.keys)],
         [n EXCEPT !.keys = Append(n.keys, FreshKey(n.keys)), !.ch = Append(n.ch, FreshLeaf)]} ELSE {}) \cup
  (IF n.k \in {"tuple", "list", "deque", "dict", "odict", "ddict"} /\ Len(n.ch) >= 1 /\ n.id > 0
   THEN {[n EXCEPT !.id = IF n.k = "tuple" /\ Len(n.ch) = 1 THEN 0 - 1 ELSE n.id,     \* the empty tuple has no identity
                   !.ch = SubSeq(n.ch, 1, Len(n.ch) - 1),
                   !.keys = IF IsDictKindName(n.k) THEN SubSeq(n.keys, 1, Len(n.keys) - 1) ELSE <<>>]} ELSE {}) \cup
  (IF n.k \in {"tuple", "list"} /\ n.id > 0 THEN {[n EXCEPT !.ch = Append(n.ch, FreshLeaf)]} ELSE {}) \cup
  (IF n.k = "deque" /\ (n.meta = 0 \/ n.meta - 1 > Len(n.ch)) THEN {[n EXCEPT !.ch = Append(n.ch, FreshLeaf)]} ELSE {}) \cup
  (IF n.k = "deque" THEN {[n EXCEPT !.meta = IF n.meta = 0 THEN Len(n.ch) + 3 ELSE 0]} ELSE {}) \cup
  (IF n.k = "nt" /\ n.cls = 11 THEN {[n EXCEPT !.cls = 14]} ELSE {}) \cup
  (IF n.k = "custom" /\ ~n.hasent THEN {[n EXCEPT !.meta = n.meta + 1], [n EXCEPT !.cls = IF n.cls = 1 THEN 3 ELSE 1]} ELSE {}) \cup
  (IF n.k = "none" THEN {FreshLeaf} ELSE {})

RECURSIVE RevAll(_)
RevAll(t) == LET kids == [i \in DOMAIN t.ch |-> RevAll(t.ch[i])] IN
             IF IsDictKindName(t.k) THEN [t EXCEPT !.keys = RevSeq(t.keys), !.ch = RevSeq(kids)]
             ELSE [t EXCEPT !.ch = kids]
RECURSIVE HasMultiDict(_)
HasMultiDict(t) == (IsDictKindName(t.k) /\ Len(t.keys) >= 2) \/ \E i \in DOMAIN t.ch : HasMultiDict(t.ch[i])

Basic(a, s) == {a, s} \cup {Replace(a, n.id, e) : <<n, e>> \in {<<n, e>> \in Nodes(a) \X (UNION {EditsOf(n, s) : n \in Nodes(a)}) :
                                                                  n.id > 0 /\ e \in EditsOf(n, s)}}
PairsOf(a, s) == LET bs == Basic(a, s) IN
                 {<<a, b>> : b \in bs} \cup {<<a, RevAll(b)>> : b \in {x \in bs : HasMultiDict(x)}}

PInit == Init /\ obs = {}
PNext == Next /\ obs' = IF Len(stack') = 2 THEN PairsOf(stack'[1], stack'[2]) ELSE {}
PSpec == PInit /\ [][PNext]_pvars

\* a failing pair is printed (tag BADPAIR) so that the counterexample names the pair, not just the forest
Holds(tag, p, c, ok) == ok \/ ~PrintT(<<"BADPAIR", tag, p[1], p[2], c>>)
PInvC06 == \A p \in obs : \A c \in PairCfgs : Holds("C06", p, c, EqLaw(p[1], p[2], c))
PInvC07 == \A p \in obs : \A c \in PairCfgs : Holds("C07", p, c, PrefixLaw(p[1], p[2], c) /\ PrefixLaw(p[2], p[1], c))
PInvC09 == \A p \in obs : \A c \in PairCfgs : Holds("C09", p, c, LubLaw(p[1], p[2], c))
PInvC08 == \A p \in obs : \A c \in PairCfgs : Holds("C08", p, c, ComposeLaw(p[1], p[2], c))
=============================================================================
