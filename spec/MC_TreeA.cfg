SPECIFICATION Spec
CONSTANTS
  MaxNodes = 4
  MaxStack = 2
  MaxArity = 2
  Kinds = {"none", "tuple", "list", "dict", "odict", "ddict", "deque", "nt", "ss", "custom", "sub"}
  KeyU <- MCKeyU
  NtCls <- MCNtCls
  CustomCls <- MCCustomCls
  Metas = {1, 2}
  MaxLens = {0, 3}
  Factories = {0, 1}
  Reg0 <- MCReg0
  NsSet = {"", "a", "zz"}
  ModeSet <- MCModeSet
  PredSet <- MCPredSet
  Depth = 10
INVARIANT SingleInv
INVARIANT PairInv
CHECK_DEADLOCK FALSE
