------------------------------- MODULE RegInd -------------------------------
(* Unbounded (inductive) argument for the registry design of Registry.tla: the two engine registries and the Python mirror
   agree after every call, for histories of any length and any number of registrations.  Checked with Apalache:
     apalache-mc check --init=Init    --inv=IndInv --length=0 RegInd.tla      (base case)
     apalache-mc check --init=IndInit --inv=IndInv --length=1 RegInd.tla      (inductive step)                      *)
EXTENDS Integers

Types == 1..4
Nss == {"", "a", "b"}

VARIABLES
  \* @type: <<Str, Int>> -> Int;
  regN,
  \* @type: <<Str, Int>> -> Int;
  regL,
  \* @type: <<Str, Int>> -> Int;
  mirror,
  \* @type: Int;
  gen,
  \* @type: Set(Str);
  modes

Keys == Nss \X Types

Init == /\ regN = [k \in Keys |-> 0] /\ regL = [k \in Keys |-> 0] /\ mirror = [k \in Keys |-> 0] /\ gen = 0 /\ modes = {}

\* a call either fails (argument error, built-in, duplicate, absent, warning raised as error) and changes nothing, or succeeds atomically
Register(ns, ty) == /\ regN[<<ns, ty>>] = 0
                    /\ gen' = gen + 1
                    /\ regN' = [regN EXCEPT ![<<ns, ty>>] = gen + 1]
                    /\ regL' = [regL EXCEPT ![<<ns, ty>>] = gen + 1]
                    /\ mirror' = [mirror EXCEPT ![<<ns, ty>>] = gen + 1]
                    /\ UNCHANGED modes
Unregister(ns, ty) == /\ regN[<<ns, ty>>] # 0
                      /\ regN' = [regN EXCEPT ![<<ns, ty>>] = 0]
                      /\ regL' = [regL EXCEPT ![<<ns, ty>>] = 0]
                      /\ mirror' = [mirror EXCEPT ![<<ns, ty>>] = 0]
                      /\ UNCHANGED <<gen, modes>>
Fail == UNCHANGED <<regN, regL, mirror, gen, modes>>
SetMode(ns, on) == /\ modes' = (IF on THEN modes \cup {ns} ELSE modes \ {ns})
                   /\ UNCHANGED <<regN, regL, mirror, gen>>
Next == \/ \E ns \in Nss, ty \in Types : Register(ns, ty) \/ Unregister(ns, ty)
        \/ \E ns \in Nss, on \in BOOLEAN : SetMode(ns, on)
        \/ Fail

TypeOK == /\ regN \in [Keys -> Int] /\ regL \in [Keys -> Int] /\ mirror \in [Keys -> Int] /\ gen \in Int /\ modes \in SUBSET Nss
\* registration ids are fresh: every stored id is positive and at most gen, and no id is stored under two keys
IndInv == /\ TypeOK
          /\ gen >= 0
          /\ regN = regL /\ mirror = regN
          /\ \A k \in Keys : regN[k] >= 0 /\ regN[k] <= gen
          /\ \A k1, k2 \in Keys : (k1 # k2 /\ regN[k1] # 0) => regN[k1] # regN[k2]
IndInit == IndInv
=============================================================================
