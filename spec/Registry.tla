------------------------------ MODULE Registry ------------------------------
(***************************************************************************)
(* The process-wide mutable state of optree as a state machine (C12, C13): *)
(*   regN, regL  the two engine registries (none-is-node / none-is-leaf)   *)
(*   mirror      the Python-side table behind register_pytree_node.get     *)
(*   modes       the set of insertion-ordered namespaces                   *)
(*   ctx         the stack of open `with dict_insertion_ordered` blocks    *)
(* One action per public call.  A call that fails must leave all of it     *)
(* unchanged (Atomic); the engine variants and the mirror must agree       *)
(* (VariantAgree, MirrorExact); with-blocks restore the mode they found.   *)
(*                                                                         *)
(* Keys are <<ns, ty>> with ns = "" for the global namespace.  Values are  *)
(* registration ids (0 = absent): re-registering a type yields a NEW       *)
(* registration, which the harness observes through "which flatten         *)
(* function ran".                                                          *)
(***************************************************************************)
EXTENDS Naturals, Integers, Sequences, FiniteSets, TLC

CONSTANTS Types,        \* ids of the type universe: see TypeInfo
          RegNs,        \* namespaces as passed by callers: "GLOBAL" (the sentinel), "a", "b", "" (invalid), "NONSTR" (not a str)
          MaxGen,       \* bound on the number of successful registrations in a history
          MaxDepth      \* bound on open with-blocks

\* what kind of object each type id of the universe is
\*   "plain"   an ordinary class          "sub"      a subclass of the plain class (exact-type lookup: never a node by inheritance)
\*   "nt"      a namedtuple subclass      "ss"       a struct-sequence type
\*   "builtin" list (cannot be (un)registered)        "nonclass"  not a class at all
TypeInfo(ty) == CASE ty = 1 -> "plain" [] ty = 2 -> "sub" [] ty = 3 -> "nt" [] ty = 4 -> "ss"
                  [] ty = 5 -> "builtin" [] ty = 6 -> "nonclass"
Registrable(ty) == TypeInfo(ty) \in {"plain", "sub", "nt", "ss"}
ObsNs == {"", "a", "b"}                       \* namespaces in which behaviour is observed
Keys == ObsNs \X {ty \in Types : Registrable(ty)}

VARIABLES regN, regL, mirror, gen, modes, ctx, last
vars == <<regN, regL, mirror, gen, modes, ctx, last>>
regvars == <<regN, regL, mirror, gen>>

Empty == [k \in Keys |-> 0]
Init == /\ regN = Empty /\ regL = Empty /\ mirror = Empty /\ gen = 0
        /\ modes = {} /\ ctx = <<>> /\ last = [op |-> "init", res |-> ""]

NsKey(ns) == IF ns = "GLOBAL" THEN "" ELSE ns

\* argument validation shared by register / unregister / dict_insertion_ordered (A12: this order)
ArgError(ty, ns, pet, checkcls) ==
  IF checkcls /\ TypeInfo(ty) = "nonclass" THEN "Type"
  ELSE IF pet = "bad" THEN "Type"
  ELSE IF ns = "NONSTR" THEN "Type"
  ELSE IF ns = "" THEN "Value"
  ELSE ""

\* ---- register_pytree_node(cls, flatten, unflatten, path_entry_type=pet, namespace=ns) -----------
\* `wae`: warnings are turned into errors by the caller's filter.  Registering a namedtuple / struct-sequence class emits a
\* UserWarning; as an error it makes the call fail - and a failing call must leave no trace.
RegisterResult(ty, ns, pet, wae) ==
  LET e == ArgError(ty, ns, pet, TRUE) IN
  IF e # "" THEN e
  ELSE IF TypeInfo(ty) = "builtin" THEN "Value"
  ELSE IF regN[<<NsKey(ns), ty>>] # 0 THEN "Value"                      \* already registered
  ELSE IF wae /\ TypeInfo(ty) \in {"nt", "ss"} THEN "Warning"          \* UserWarning raised as an exception
  ELSE ""
Register(ty, ns, pet, wae) ==
  LET r == RegisterResult(ty, ns, pet, wae) IN
  /\ last' = [op |-> "register", ty |-> ty, ns |-> ns, pet |-> pet, wae |-> wae, res |-> r]
  /\ IF r = "" THEN /\ gen < MaxGen
                    /\ gen' = gen + 1
                    /\ regN' = [regN EXCEPT ![<<NsKey(ns), ty>>] = gen + 1]
                    /\ regL' = [regL EXCEPT ![<<NsKey(ns), ty>>] = gen + 1]
                    /\ mirror' = [mirror EXCEPT ![<<NsKey(ns), ty>>] = gen + 1]
     ELSE UNCHANGED regvars
  /\ UNCHANGED <<modes, ctx>>

\* ---- unregister_pytree_node(cls, namespace=ns) -----------------------------------------------
UnregisterResult(ty, ns) ==
  LET e == ArgError(ty, ns, "ok", TRUE) IN
  IF e # "" THEN e
  ELSE IF TypeInfo(ty) = "builtin" THEN "Value"
  ELSE IF regN[<<NsKey(ns), ty>>] = 0 THEN "Value"
  ELSE ""
Unregister(ty, ns) ==
  LET r == UnregisterResult(ty, ns) IN
  /\ last' = [op |-> "unregister", ty |-> ty, ns |-> ns, pet |-> "ok", wae |-> FALSE, res |-> r]
  /\ IF r = "" THEN /\ regN' = [regN EXCEPT ![<<NsKey(ns), ty>>] = 0]
                    /\ regL' = [regL EXCEPT ![<<NsKey(ns), ty>>] = 0]
                    /\ mirror' = [mirror EXCEPT ![<<NsKey(ns), ty>>] = 0]
                    /\ UNCHANGED gen
     ELSE UNCHANGED regvars
  /\ UNCHANGED <<modes, ctx>>

\* ---- with dict_insertion_ordered(mode, namespace=ns): enter / normal exit / exit by exception ---
EnterResult(ns) == ArgError(1, ns, "ok", FALSE)
Enter(mode, ns) ==
  LET r == EnterResult(ns) IN
  /\ last' = [op |-> "enter", ty |-> 0, ns |-> ns, pet |-> IF mode THEN "T" ELSE "F", wae |-> FALSE, res |-> r]
  /\ IF r = "" THEN /\ Len(ctx) < MaxDepth
                    /\ ctx' = Append(ctx, [ns |-> NsKey(ns), prev |-> NsKey(ns) \in modes])   \* the namespace's OWN previous flag
                    /\ modes' = IF mode THEN modes \cup {NsKey(ns)} ELSE modes \ {NsKey(ns)}
     ELSE UNCHANGED <<ctx, modes>>
  /\ UNCHANGED regvars
\* leaving the innermost n blocks (n = 1: normal exit; by exception: any n >= 1)
RECURSIVE Unwind(_, _, _)
Unwind(m, c, n) == IF n = 0 THEN [modes |-> m, ctx |-> c]
                   ELSE LET f == c[Len(c)] IN
                        Unwind(IF f.prev THEN m \cup {f.ns} ELSE m \ {f.ns}, SubSeq(c, 1, Len(c) - 1), n - 1)
Exit(n, byexc) ==
  /\ n >= 1 /\ n <= Len(ctx) /\ (byexc \/ n = 1)
  /\ LET u == Unwind(modes, ctx, n) IN modes' = u.modes /\ ctx' = u.ctx
  /\ last' = [op |-> IF byexc THEN "raise" ELSE "exit", ty |-> n, ns |-> "", pet |-> "ok", wae |-> FALSE, res |-> ""]
  /\ UNCHANGED regvars

\* ---- observation: what flattening does, what the Python-visible registry says -------------------
\* which registration handles an instance of ty when flattening with namespace ns (either none_is_leaf variant)
LookupIn(reg, ns, ty) == IF ns # "" /\ reg[<<ns, ty>>] # 0 THEN reg[<<ns, ty>>] ELSE reg[<<"", ty>>]
\* 0: not a custom node.  What it is then depends on the type alone: namedtuple / struct sequence are nodes by the built-in rule
Effective(ns) == ns \in modes \/ "" \in modes

\* ---- invariants -------------------------------------------------------------------------------
VariantAgree == regN = regL
MirrorExact == mirror = regN
\* a failing call leaves everything as it was (action property, checked through `last`)
AtomicStep == last'.res # "" => UNCHANGED <<regN, regL, mirror, gen, modes, ctx>>
\* namespace isolation: a successful (un)registration in namespace N changes the lookup result only in N (or, for the
\* global namespace, only where no local registration shadows it)
IsolationStep ==
  (last'.res = "" /\ last'.op \in {"register", "unregister"}) =>
     \A ns \in ObsNs, ty \in {t \in Types : Registrable(t)} :
        LookupIn(regN', ns, ty) # LookupIn(regN, ns, ty) =>
           /\ ty = last'.ty
           /\ (NsKey(last'.ns) = ns \/ (NsKey(last'.ns) = "" /\ regN[<<ns, ty>>] = 0))
\* the stack discipline of with-blocks: after leaving a block the modes are what they were when it was entered
TypeOK == /\ \A k \in Keys : regN[k] \in 0..MaxGen
          /\ modes \subseteq ObsNs
          /\ Len(ctx) <= MaxDepth
=============================================================================
