------------------------------ MODULE PrefixM ------------------------------
(***************************************************************************)
(* Layer M for C07: the treespec-vs-treespec prefix test AS THE ENGINE     *)
(* COMPUTES IT (richcomparison.cpp): one reverse walk over the two         *)
(* post-order arrays with two cursors; a leaf of `a` skips the whole       *)
(* subtree of `b`; when two dict nodes have the same key set in a          *)
(* different order, the child subtrees of `b` are PERMUTED IN A WORKING    *)
(* COPY so that the walk can continue positionally.                        *)
(*                                                                         *)
(* TLC checks that this index arithmetic computes exactly the declarative  *)
(* relation SpecPrefix of layer D on every PairGen pair.  CopyFromOriginal *)
(* selects where the permuted subtrees are copied from: FALSE = from the   *)
(* working copy (correct); TRUE = from the original array at offsets       *)
(* computed in the working copy - the as-found defect, which TLC refutes   *)
(* as soon as a re-ordered dict sits inside a re-ordered dict with unequal *)
(* subtree sizes.                                                          *)
(***************************************************************************)
EXTENDS PairGen

CONSTANT CopyFromOriginal

\* positions of the child roots of the node at p in array `nodes` (left to right)
KidRoots(nodes, p) == KidsOf(nodes, p)

\* the permuted child block of the b-node at pb: children in the order of x's keys
Permuted(x, y, bcopy, orig, pb) ==
  LET ks == KidRoots(bcopy, pb)                                  \* child roots, computed in the WORKING COPY
      src == IF CopyFromOriginal THEN orig ELSE bcopy
      blockOf(j) == SubSeq(src, ks[j] - bcopy[ks[j]].nn + 1, ks[j])
  IN Concat([i \in 1..x.arity |-> blockOf(IndexOf(x.keys[i], y.keys))])

RECURSIVE Walk(_, _, _, _, _, _)
\* a, orig: node arrays; bcopy: working copy of orig; pa, pb: cursors (1-based, moving down); am: all leaves of a matched leaves of b
Walk(a, orig, bcopy, pa, pb, am) ==
  IF pa < 1 THEN [ok |-> pb = 0, allmatch |-> am]
  ELSE IF pb < 1 THEN [ok |-> FALSE, allmatch |-> am]
  ELSE LET x == a[pa]  y == bcopy[pb] IN
    IF x.kind = NLEAF THEN Walk(a, orig, bcopy, pa - 1, pb - y.nn, am /\ y.kind = NLEAF)
    ELSE IF x.arity # y.arity \/ x.cls # y.cls THEN [ok |-> FALSE, allmatch |-> am]
    ELSE IF x.kind \in {NNONE, NTUPLE, NLIST, NDEQUE} THEN
         IF x.kind # y.kind \/ x.nn > y.nn THEN [ok |-> FALSE, allmatch |-> am] ELSE Walk(a, orig, bcopy, pa - 1, pb - 1, am)
    ELSE IF x.kind \in DictKinds THEN
         IF y.kind \notin DictKinds \/ ~SameKeySet(x.keys, y.keys) THEN [ok |-> FALSE, allmatch |-> am]
         ELSE LET b2 == IF x.keys = y.keys THEN bcopy
                        ELSE LET blk == Permuted(x, y, bcopy, orig, pb)
                                 lo == pb - y.nn + 1
                             IN SubSeq(bcopy, 1, lo - 1) \o blk \o SubSeq(bcopy, pb, Len(bcopy))
              IN IF Len(b2) # Len(bcopy) \/ x.nn > y.nn THEN [ok |-> FALSE, allmatch |-> am]
                 ELSE Walk(a, orig, b2, pa - 1, pb - 1, am)
    ELSE \* namedtuple / struct sequence / custom: same kind and equal node data
         IF x.kind # y.kind \/ x.m # y.m \/ x.nn > y.nn THEN [ok |-> FALSE, allmatch |-> am]
         ELSE Walk(a, orig, bcopy, pa - 1, pb - 1, am)

PrefixM(a, b, strict) ==
  /\ a.nil = b.nil
  /\ NsCompatible(a.ns, b.ns)
  /\ Len(a.nodes) <= Len(b.nodes)
  /\ LET r == Walk(a.nodes, b.nodes, b.nodes, Len(a.nodes), Len(b.nodes), TRUE) IN r.ok /\ (~strict \/ ~r.allmatch)

\* the code-shaped algorithm refines the declarative relation on every generated pair, in both directions
PInvPrefixM == \A p \in obs : \A c \in PairCfgs :
                 LET sa == S(p[1], c)  sb == S(p[2], c) IN
                 Holds("PrefixM", p, c,
                       /\ PrefixM(sa, sb, FALSE) = SpecPrefix(sa, sb, FALSE) /\ PrefixM(sa, sb, TRUE) = SpecPrefix(sa, sb, TRUE)
                       /\ PrefixM(sb, sa, FALSE) = SpecPrefix(sb, sa, FALSE) /\ PrefixM(sb, sa, TRUE) = SpecPrefix(sb, sa, TRUE))
=============================================================================
