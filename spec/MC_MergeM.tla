---- MODULE MC_MergeM ----
EXTENDS MergeM
MCKeyU == { <<KSTR, 1>>, <<KSTR, 2>> }
MCNtCls == (11 :> [k |-> "nt", arity |-> 2])
MCCustomCls == (1 :> [hasent |-> FALSE])
MCReg0 == << <<"", 1>>, <<"a", 2>>, <<"a", 3>>, <<"b", 3>> >>
MCModeSet == { <<"">> }
MCPredSet == { [haspred |-> FALSE, pk |-> <<>>, pi |-> <<>>] }
====
