SPECIFICATION TSpec
CONSTANTS
  Types = {1, 2, 3, 4, 5, 6}
  RegNs = {"GLOBAL", "a", "b", "", "NONSTR"}
  MaxGen = 100000
  MaxDepth = 100000
INVARIANT DoneInv
CHECK_DEADLOCK FALSE
