----------------------------- MODULE LayoutGen -----------------------------
(***************************************************************************)
(* C19: optree dataclasses.  A class is a sequence of field descriptors    *)
(* (init / pytree_node / kw_only / has default) plus class flags; the      *)
(* layout rule maps it to (children field names in declaration order,      *)
(* metadata field names, path entries) or to a rejection.  TLC enumerates  *)
(* every layout up to a size bound and checks the algebra of the rule; the *)
(* same layouts are built as real classes (decorator form and              *)
(* make_dataclass) and judged against the rule.                            *)
(***************************************************************************)
EXTENDS Naturals, Integers, Sequences, FiniteSets, TLC

CONSTANTS MaxFields

Desc == [init : BOOLEAN, node : BOOLEAN, kwonly : BOOLEAN, dflt : BOOLEAN]
\* Python itself requires: a field that is not in __init__ needs a default (otherwise the attribute does not exist);
\* a kw_only flag is meaningless without init
Sensible(d) == (~d.init => d.dflt /\ ~d.kwonly)
Layouts == UNION {[1..n -> {d \in Desc : Sensible(d)}] : n \in 0..MaxFields}

VARIABLE layout
LInit == layout \in Layouts
LNext == UNCHANGED layout
LSpec == LInit /\ [][LNext]_layout

Idx(l, P(_)) == SelectSeq([i \in 1..Len(l) |-> i], LAMBDA i : P(l[i]))
\* optree's own rejection: a pytree node must be an __init__ argument
RejectedByOptree(l) == \E i \in DOMAIN l : l[i].node /\ ~l[i].init
\* dataclasses' rejection: a positional field without default after a positional field with default
RejectedByStdlib(l) == \E i, j \in DOMAIN l : i < j /\ l[i].init /\ l[j].init /\ ~l[i].kwonly /\ ~l[j].kwonly /\ l[i].dflt /\ ~l[j].dflt
Children(l) == Idx(l, LAMBDA d : d.node /\ d.init)
Metadata(l) == Idx(l, LAMBDA d : d.init /\ ~d.node)
NonInit(l) == Idx(l, LAMBDA d : ~d.init)

Range0(s) == {s[i] : i \in DOMAIN s}
LayoutInv ==
  /\ Range0(Children(layout)) \cap Range0(Metadata(layout)) = {}
  /\ ~RejectedByOptree(layout) =>
        Range0(Children(layout)) \cup Range0(Metadata(layout)) \cup Range0(NonInit(layout)) = DOMAIN layout
  \* everything __init__ needs is either a child or metadata: unflatten can always rebuild the instance
  /\ ~RejectedByOptree(layout) => \A i \in DOMAIN layout : layout[i].init => (i \in Range0(Children(layout)) \/ i \in Range0(Metadata(layout)))
  \* declaration order is preserved
  /\ \A a, b \in DOMAIN Children(layout) : a < b => Children(layout)[a] < Children(layout)[b]
=============================================================================
