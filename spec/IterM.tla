------------------------------- MODULE IterM -------------------------------
(***************************************************************************)
(* Generator and model-level laws for the lazy iterator (IterSem): all     *)
(* programs of up to MaxLen calls - creating iterators, stepping them,     *)
(* mutating the containers they are suspended in, entering / leaving       *)
(* dict_insertion_ordered blocks, (un)registering the custom class - over  *)
(* the three initial heaps.  `hist` is the program (with the results the   *)
(* specification predicts); it is replayed on the real optree.             *)
(***************************************************************************)
EXTENDS IterSem

CONSTANTS MaxLen, MaxIt, MaxFresh, MaxCtx,
          Family        \* "mut" | "env" | "pred" | "all": which calls the programs are made of

VARIABLES shape, st, hist
ivars == <<shape, st, hist>>

Call(op, i, nil, ns, pk, pi, c, e, b) == [op |-> op, i |-> i, nil |-> nil, ns |-> ns, pk |-> pk, pi |-> pi, c |-> c, e |-> e, b |-> b]
Opts == CASE Family = "mut"  -> {<<FALSE, "", "none", 0>>, <<TRUE, "", "none", 0>>}
          [] Family = "env"  -> {<<n, ns, "none", 0>> : n \in BOOLEAN, ns \in {"", "a"}}
          [] Family = "pred" -> {<<FALSE, "", "leafat", 2>>, <<FALSE, "", "leafat", 3>>, <<TRUE, "", "leafat", 0>>,
                                 <<FALSE, "", "raiseat", 3>>, <<FALSE, "", "raiseat", 11>>, <<FALSE, "", "raiseat", 4>>}
          [] OTHER -> {<<n, ns, p[1], p[2]>> : n \in BOOLEAN, ns \in {"", "a"},
                                               p \in {<<"none", 0>>, <<"leafat", 2>>, <<"leafat", 0>>, <<"raiseat", 3>>, <<"raiseat", 11>>}}
Creates == {Call("create", 0, o[1], o[2], o[3], o[4], 0, "", FALSE) : o \in Opts}
Nexts == {Call("next", i, FALSE, "", "none", 0, 0, "", FALSE) : i \in 1..MaxIt}
LeavesCalls == {Call("leaves", 0, o[1], o[2], o[3], o[4], 0, "", FALSE) : o \in Opts}
Mutates == IF Family = "env" THEN {}
           ELSE {Call("mutate", 0, FALSE, "", "none", 0, c, e, FALSE) : c \in 1..NCont,
                   e \in IF Family = "pred" THEN {"append", "clear", "popfirst"} ELSE Edits}
Envs == IF Family \in {"mut", "pred"} THEN {}
        ELSE {Call("enter", 0, FALSE, ns, "none", 0, 0, "", b) : ns \in {"", "a"}, b \in BOOLEAN}
             \cup {Call("exit", 0, FALSE, "", "none", 0, 0, "", FALSE)}
             \cup {Call("reg", 0, FALSE, ns, "none", 0, 0, "", b) : ns \in {"", "a"}, b \in BOOLEAN}
Calls == Creates \cup Nexts \cup LeavesCalls \cup Mutates \cup Envs

Init == shape \in Shapes /\ st = S0(shape) /\ hist = <<>>
Do(c) == LET r == Step(st, c) IN
         /\ r.res # NOOP
         /\ c.op = "create" => Len(st.its) < MaxIt
         /\ c.op = "enter" => Len(st.ctx) < MaxCtx
         /\ c.op = "mutate" => (st.nfresh < MaxFresh \/ c.e \in {"popfirst", "poplast", "clear"})
         /\ c.op \in {"next", "leaves"} => st.its # <<>>          \* observations only once there is something to observe
         /\ st' = r.st
         /\ hist' = Append(hist, c @@ [res |-> r.res])
Next == Len(hist) < MaxLen /\ \E c \in Calls : Do(c) /\ UNCHANGED shape
Spec == Init /\ [][Next]_ivars

\* ---- laws ------------------------------------------------------------------------------------------
Ids(S) == {0} \cup (1..NCont) \cup (10..16) \cup {NewLeaf(n) : n \in 0..(S.nfresh - 1)}
\* only existing objects are pending
AgendaValid == \A i \in 1..Len(st.its) : \A j \in 1..Len(st.its[i].ag) : st.its[i].ag[j] \in Ids(st)
\* C03 for the lazy entry point: an iterator that has not been advanced yet yields exactly what the eager traversal of the
\* heap as it is NOW returns under the iterator's captured options - whatever happened since it was created
FreshAgrees == \A i \in 1..Len(st.its) :
                 st.its[i].ag = <<1>> =>
                   LET o == st.its[i].o
                       d == Drain(st, o, <<1>>)
                       f == Flat(st, o, 1) IN
                   d = f
\* a drained iterator delivers every pending leaf that is already in its agenda, in agenda order (snapshot rule):
\* the pending plain leaves are a subsequence of what it will deliver if nothing else happens
PendingLeaves(ag) == LET idx == {j \in 1..Len(ag) : ag[j] >= 10} IN Cardinality(idx)
Count(s, x) == Cardinality({j \in 1..Len(s) : s[j] = x})
SnapshotDelivered == \A i \in 1..Len(st.its) :
                       LET it == st.its[i]
                           d == Drain(st, it.o, it.ag) IN
                       (it.o.pk # "raiseat") => \A j \in 1..Len(it.ag) : it.ag[j] >= 10 => Count(d, it.ag[j]) >= Count(it.ag, it.ag[j])
\* the last call of the program: mutations, mode changes and registry changes never touch a suspended iterator
AgendaStable == [][(hist' # hist /\ hist'[Len(hist')].op \notin {"next", "create"}) =>
                     \A i \in 1..Len(st.its) : st'.its[i] = st.its[i]]_ivars
\* exhaustion is absorbing
StopAbsorbing == [][(hist' # hist /\ hist'[Len(hist')].op = "next" /\ st.its[hist'[Len(hist')].i].ag = <<>>) =>
                      hist'[Len(hist')].res = STOP /\ st'.its = st.its]_ivars
Inv == AgendaValid /\ FreshAgrees /\ SnapshotDelivered
=============================================================================
