------------------------------ MODULE HistGen ------------------------------
(***************************************************************************)
(* Generator machine for containers reached through a construction HISTORY *)
(* (C01, C02, C14): insertions, deletions and re-insertions,               *)
(* OrderedDict.move_to_end, defaultdict auto-insertion, deque append /     *)
(* appendleft / rotate at maxlen.  The state holds the LOGICAL content     *)
(* (what iterating the container yields, by Python's documented semantics) *)
(* and the operation history; the harness replays the history on a real    *)
(* container - whose internal storage order then differs from its logical  *)
(* order - checks that the real container's iteration order equals the     *)
(* model's, and runs the flatten / round-trip checks on it.                *)
(***************************************************************************)
EXTENDS TreeLaws

CONSTANTS HKinds,     \* subset of {"dict", "odict", "ddict", "deque"}
          HKeys,      \* key universe
          MaxHist,    \* number of operations
          HMaxLen     \* deque maxlen (encoded: m + 1)

VARIABLES kind, keys, vals, hist, nxt, embed,
          obs      \* derived: the tree the state denotes (a function of the other variables; adds no states)
hvars == <<kind, keys, vals, hist, nxt, embed, obs, stack, used>>

\* the tree the history denotes (container id 900, leaves = the value ids)
ContainerOf(kind_, keys_, vals_) == [k |-> kind_, id |-> 900, ch |-> [i \in DOMAIN vals_ |-> PlainLeaf(vals_[i])],
              keys |-> IF kind_ = "deque" THEN <<>> ELSE keys_,
              meta |-> IF kind_ = "deque" THEN HMaxLen ELSE IF kind_ = "ddict" THEN 4 ELSE 0,
              cls |-> 0, ent |-> <<>>, hasent |-> FALSE, fault |-> ""]
Wrapper(k, id, ch, ks, cls, meta) == [k |-> k, id |-> id, ch |-> ch, keys |-> ks, meta |-> meta, cls |-> cls,
                                      ent |-> <<>>, hasent |-> FALSE, fault |-> ""]
HTreeOf(kind_, keys_, vals_, embed_) ==
  LET Container == ContainerOf(kind_, keys_, vals_) IN
        CASE embed_ = "tuple" -> Wrapper("tuple", 901, <<PlainLeaf(800), Container>>, <<>>, 0, 0)
           [] embed_ = "custom" -> Wrapper("custom", 901, <<Container>>, <<>>, 1, 1)
           [] embed_ = "dictval" -> Wrapper("dict", 901, <<Container, PlainLeaf(800)>>, << <<KSTR, 4>>, <<KSTR, 2>> >>, 0, 0)
           [] OTHER -> Container

HTree == obs

HInit == /\ stack = <<>> /\ used = 0     \* (TreeGen's variables are not used by this machine)
         /\ kind \in HKinds /\ keys = <<>> /\ vals = <<>> /\ hist = <<>> /\ nxt = 1 /\ embed = "none"
         /\ obs = HTreeOf(kind, <<>>, <<>>, "none")

Pos(k) == IndexOf(k, keys)
Has(k) == InSeq(k, keys)
RemoveAtIdx(s, i) == SubSeq(s, 1, i - 1) \o SubSeq(s, i + 1, Len(s))
Log(op) == hist' = Append(hist, op)
Building == embed = "none" /\ Len(hist) < MaxHist

\* d[k] = fresh leaf: a new key goes to the end, an existing key keeps its position
SetK(k) == /\ Building /\ kind \in {"dict", "odict", "ddict"}
           /\ IF Has(k) THEN keys' = keys /\ vals' = [vals EXCEPT ![Pos(k)] = nxt]
                        ELSE keys' = Append(keys, k) /\ vals' = Append(vals, nxt)
           /\ nxt' = nxt + 1 /\ Log(<<"set", k, nxt>>) /\ UNCHANGED <<kind, embed>>
DelK(k) == /\ Building /\ kind \in {"dict", "odict", "ddict"} /\ Has(k)
           /\ keys' = RemoveAtIdx(keys, Pos(k)) /\ vals' = RemoveAtIdx(vals, Pos(k))
           /\ Log(<<"del", k, 0>>) /\ UNCHANGED <<kind, nxt, embed>>
\* OrderedDict.move_to_end(k, last)
MoveK(k, last) == /\ Building /\ kind = "odict" /\ Has(k)
                  /\ LET i == Pos(k) IN
                     IF last THEN keys' = Append(RemoveAtIdx(keys, i), k) /\ vals' = Append(RemoveAtIdx(vals, i), vals[i])
                             ELSE keys' = <<k>> \o RemoveAtIdx(keys, i) /\ vals' = <<vals[i]>> \o RemoveAtIdx(vals, i)
                  /\ Log(<<"move", k, IF last THEN 1 ELSE 0>>) /\ UNCHANGED <<kind, nxt, embed>>
\* defaultdict.__missing__: reading an absent key inserts factory() at the end (the factory of the universe makes leaf `nxt`)
MissK(k) == /\ Building /\ kind = "ddict" /\ ~Has(k)
            /\ keys' = Append(keys, k) /\ vals' = Append(vals, nxt) /\ nxt' = nxt + 1
            /\ Log(<<"miss", k, nxt>>) /\ UNCHANGED <<kind, embed>>
\* deque(maxlen = HMaxLen - 1)
DqAppend == /\ Building /\ kind = "deque"
            /\ vals' = (IF Len(vals) = HMaxLen - 1 THEN Tail(vals) ELSE vals) \o <<nxt>>
            /\ nxt' = nxt + 1 /\ Log(<<"append", <<0, 0>>, nxt>>) /\ UNCHANGED <<kind, keys, embed>>
DqAppendLeft == /\ Building /\ kind = "deque"
                /\ vals' = <<nxt>> \o (IF Len(vals) = HMaxLen - 1 THEN SubSeq(vals, 1, Len(vals) - 1) ELSE vals)
                /\ nxt' = nxt + 1 /\ Log(<<"appendleft", <<0, 0>>, nxt>>) /\ UNCHANGED <<kind, keys, embed>>
DqRotate == /\ Building /\ kind = "deque" /\ Len(vals) >= 2
            /\ vals' = <<vals[Len(vals)]>> \o SubSeq(vals, 1, Len(vals) - 1)          \* rotate(1)
            /\ Log(<<"rotate", <<0, 0>>, 1>>) /\ UNCHANGED <<kind, keys, nxt, embed>>
\* finally place the container somewhere in a tree
Embed(e) == /\ embed = "none" /\ hist # <<>> /\ embed' = e /\ UNCHANGED <<kind, keys, vals, hist, nxt>>

HNext == /\ \/ \E k \in HKeys : SetK(k) \/ DelK(k) \/ MissK(k) \/ \E l \in BOOLEAN : MoveK(k, l)
            \/ DqAppend \/ DqAppendLeft \/ DqRotate
            \/ \E e \in {"root", "tuple", "custom", "dictval"} : Embed(e)
         /\ obs' = HTreeOf(kind', keys', vals', embed')
         /\ UNCHANGED <<stack, used>>
HSpec == HInit /\ [][HNext]_hvars

HistInv == /\ NoDupKeys(keys)
           /\ kind # "deque" => Len(keys) = Len(vals)
           /\ kind = "deque" => Len(vals) <= HMaxLen - 1
           /\ embed # "none" => \A c \in Cfgs : RT1(HTree, c) /\ RT2(HTree, c) /\ RT3(HTree, c) /\ PermLaw(HTree, c) /\ PathLaw(HTree, c)
=============================================================================
