---- MODULE MC_Hist ----
EXTENDS HistGen
MCKeyU == {}
MCHKeys == { <<KSTR, 2>>, <<KSTR, 4>>, <<KINT, 1>> }
MCNtCls == (11 :> [k |-> "nt", arity |-> 2])
MCCustomCls == (1 :> [hasent |-> FALSE])
MCReg0 == << <<"", 1>>, <<"a", 2>>, <<"a", 3>>, <<"b", 3>> >>
MCModeSet == { <<>>, <<"">> }
MCPredSet == { [haspred |-> FALSE, pk |-> <<>>, pi |-> <<>>] }
====
