------------------------------ MODULE RavelGen ------------------------------
(***************************************************************************)
(* C20: tree_ravel / unravel, structure only.  A tree of arrays is, for    *)
(* this property, its list of leaves in flatten order; a leaf is a shape   *)
(* and a dtype; array elements are opaque tags <<leaf index, offset>>.     *)
(* Ravel concatenates the raveled leaves in leaf order under the joined    *)
(* dtype; Unravel splits at the accumulated sizes, reshapes and casts      *)
(* back.  TLC enumerates every leaf list up to a bound and checks both     *)
(* inverse laws and the rejection rules; the same leaf lists are built as  *)
(* real arrays on every backend.  Numeric representability and the         *)
(* backends' own promotion tables are outside the model (DESIGN 9): the    *)
(* join is an abstract lattice here and the backend's own joint promotion  *)
(* in the conformance run.                                                 *)
(***************************************************************************)
EXTENDS Naturals, Integers, Sequences, FiniteSets, TLC

CONSTANTS MaxLeaves, Shapes, DTypes      \* Shapes: set of sequences of extents; DTypes: subset of 1..4 (bool < int < float < complex)

Size(sh) == IF sh = <<>> THEN 1 ELSE LET F[i \in 0..Len(sh)] == IF i = 0 THEN 1 ELSE F[i - 1] * sh[i] IN F[Len(sh)]
LeafSet == [shape : Shapes, dt : DTypes]
LeafLists == UNION {[1..n -> LeafSet] : n \in 0..MaxLeaves}

VARIABLE ls
RInit == ls \in LeafLists
RSpec == RInit /\ [][UNCHANGED ls]_ls

Max2(a, b) == IF a > b THEN a ELSE b
RECURSIVE JoinFrom(_, _)
JoinFrom(l, i) == IF i > Len(l) THEN 0 ELSE Max2(l[i].dt, JoinFrom(l, i + 1))
Join(l) == JoinFrom(l, 1)
Mixed(l) == \E i \in DOMAIN l : l[i].dt # Join(l)

RECURSIVE Offsets(_, _)
Offsets(l, i) == IF i > Len(l) THEN <<>> ELSE <<Size(l[i].shape)>> \o Offsets(l, i + 1)
Total(l) == LET o == Offsets(l, 1) IN IF o = <<>> THEN 0 ELSE LET S[i \in 0..Len(o)] == IF i = 0 THEN 0 ELSE S[i - 1] + o[i] IN S[Len(o)]
\* the flat vector: element k is tag <<leaf i, offset j>>; its dtype is the join
Ravel(l) == [dt |-> Join(l),
             elems |-> LET R[i \in 0..Len(l)] == IF i = 0 THEN <<>> ELSE R[i - 1] \o [j \in 1..Size(l[i].shape) |-> <<i, j>>] IN R[Len(l)]]
\* unravel a vector v = [dt, elems] w.r.t. the leaf list l
Unravel(l, v) ==
  IF Len(v.elems) # Total(l) THEN [err |-> "Value"]
  ELSE IF Mixed(l) /\ v.dt # Join(l) THEN [err |-> "Value"]
  ELSE [err |-> "",
        leaves |-> [i \in DOMAIN l |->
                      LET start == Total(SubSeq(l, 1, i - 1)) IN
                      [shape |-> l[i].shape, dt |-> IF Mixed(l) THEN l[i].dt ELSE v.dt,
                       elems |-> SubSeq(v.elems, start + 1, start + Size(l[i].shape))]]]

RavelInv ==
  LET r == Ravel(ls)  u == Unravel(ls, r) IN
  /\ Len(r.elems) = Total(ls)
  /\ u.err = ""
  \* unravel(ravel(t)) = t : shapes, dtypes, and exactly the original elements of every leaf
  /\ \A i \in DOMAIN ls : /\ u.leaves[i].shape = ls[i].shape /\ u.leaves[i].dt = ls[i].dt
                          /\ u.leaves[i].elems = [j \in 1..Size(ls[i].shape) |-> <<i, j>>]
  \* ravel(unravel(v)) = v for any other vector of the right length and dtype
  /\ LET v == [dt |-> r.dt, elems |-> [k \in 1..Total(ls) |-> <<0, k>>]]
         w == Unravel(ls, v) IN
     w.err = "" /\ LET R[i \in 0..Len(ls)] == IF i = 0 THEN <<>> ELSE R[i - 1] \o w.leaves[i].elems IN R[Len(ls)] = v.elems
  \* wrong length is rejected; wrong dtype is rejected exactly when the leaves had mixed dtypes
  /\ Unravel(ls, [dt |-> r.dt, elems |-> Append(r.elems, <<0, 0>>)]).err = "Value"
  /\ \A d \in DTypes : d # Join(ls) => (Unravel(ls, [dt |-> d, elems |-> r.elems]).err = "Value") = Mixed(ls)
  \* an empty tree ravels to an empty vector
  /\ ls = <<>> => r.elems = <<>>
=============================================================================
