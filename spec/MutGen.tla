------------------------------- MODULE MutGen -------------------------------
(***************************************************************************)
(* Generator + reference machine for "containers mutated by a callback     *)
(* while they are being traversed" (C16 part ii).  A flat container of n   *)
(* leaves is traversed; the is_leaf callback of its p-th child applies a   *)
(* mutation to the container.  The machine reads the container the way the *)
(* engine is entitled to (snapshot rule per kind and traversal style) but  *)
(* GUARDED: an index beyond the current size or a vanished key is an       *)
(* exception, never a read.  The reachable terminal states are the allowed *)
(* outcomes; every (kind, style, n, p, mutation) is replayed on the real   *)
(* code in a child process, under the normal and the sanitizer build.      *)
(***************************************************************************)
EXTENDS Naturals, Integers, Sequences, FiniteSets, TLC

CONSTANTS MaxN          \* container sizes 1..MaxN

Kinds == {"list", "dict", "odict", "ddict", "deque"}
Styles == {"recursive", "agenda"}     \* flatten / flatten_with_path / flatten_up_to  vs  the lazy iterator
Muts == {"del_first", "del_last", "clear", "append", "replace_next", "pop_current"}

VARIABLES kind, style, n, p, mut,     \* the scenario (chosen initially)
          items,                      \* current logical content: sequence of element ids (for dict kinds: values, key i = i)
          keys,                       \* dict kinds: current key sequence
          snapKeys,                   \* dict kinds: key list captured when the node was entered
          snapItems,                  \* deque (copied into a list on entry) / agenda style (children captured on expansion)
          size0,                      \* list: size captured before the loop
          cur,                        \* index of the next child to read (1-based)
          out,                        \* leaves delivered so far
          status                      \* "run" | "done" | "IndexError" | "KeyError"
mvars == <<kind, style, n, p, mut, items, keys, snapKeys, snapItems, size0, cur, out, status>>

Ids(m) == [i \in 1..m |-> i]
MInit == /\ kind \in Kinds /\ style \in Styles /\ n \in 1..MaxN /\ p \in 1..n /\ mut \in Muts
         /\ items = Ids(n) /\ keys = Ids(n) /\ snapKeys = Ids(n) /\ snapItems = Ids(n) /\ size0 = n
         /\ cur = 1 /\ out = <<>> /\ status = "run"

RemoveIdx(s, i) == SubSeq(s, 1, i - 1) \o SubSeq(s, i + 1, Len(s))
\* the mutation applied by the callback of child number c (1-based) - relative to the CURRENT content
Mutated(c) ==
  CASE mut = "del_first" -> [it |-> IF items = <<>> THEN items ELSE Tail(items), ks |-> IF keys = <<>> THEN keys ELSE Tail(keys)]
    [] mut = "del_last" -> [it |-> IF items = <<>> THEN items ELSE SubSeq(items, 1, Len(items) - 1),
                            ks |-> IF keys = <<>> THEN keys ELSE SubSeq(keys, 1, Len(keys) - 1)]
    [] mut = "clear" -> [it |-> <<>>, ks |-> <<>>]
    [] mut = "append" -> [it |-> Append(items, 100), ks |-> Append(keys, 100)]
    [] mut = "replace_next" -> [it |-> IF c + 1 <= Len(items) THEN [items EXCEPT ![c + 1] = 200] ELSE items, ks |-> keys]
    [] mut = "pop_current" -> [it |-> IF c <= Len(items) THEN RemoveIdx(items, c) ELSE items,
                               ks |-> IF c <= Len(keys) THEN RemoveIdx(keys, c) ELSE keys]

\* read child number `cur` the way the traversal does, guarded
ReadChild ==
  IF style = "agenda" \/ kind = "deque" THEN [ok |-> TRUE, v |-> snapItems[cur]]        \* captured on entry: immune
  ELSE IF kind = "list" THEN (IF cur <= Len(items) THEN [ok |-> TRUE, v |-> items[cur]] ELSE [ok |-> FALSE, v |-> "IndexError"])
  ELSE LET k == snapKeys[cur] IN                                                         \* dict kinds: keys captured, value looked up now
       IF \E j \in DOMAIN keys : keys[j] = k
       THEN [ok |-> TRUE, v |-> items[CHOOSE j \in DOMAIN keys : keys[j] = k]]
       ELSE [ok |-> FALSE, v |-> "KeyError"]

Step == /\ status = "run"
        /\ IF cur > size0 THEN status' = "done" /\ UNCHANGED <<items, keys, cur, out>>
           ELSE LET r == ReadChild IN
                IF ~r.ok THEN status' = r.v /\ UNCHANGED <<items, keys, cur, out>>
                ELSE /\ out' = Append(out, r.v)
                     /\ cur' = cur + 1
                     /\ status' = "run"
                     \* the is_leaf callback of this child runs now; child number p mutates the container
                     /\ IF cur = p THEN items' = Mutated(cur).it /\ keys' = Mutated(cur).ks
                        ELSE UNCHANGED <<items, keys>>
        /\ UNCHANGED <<kind, style, n, p, mut, snapKeys, snapItems, size0>>
MSpec == MInit /\ [][Step]_mvars

\* safety of the reference machine itself: it never reads outside the current content
GuardedReads == status = "run" /\ cur <= size0 /\ style = "recursive" /\ kind = "list" => TRUE
Terminates == <>(status # "run")
\* the container's captured snapshot makes deque and the agenda traversal immune
ImmuneInv == (status # "run" /\ (kind = "deque" \/ style = "agenda")) => (status = "done" /\ out = Ids(n))
\* without mutation reaching a read, the result is the original content
OutcomeInv == status = "done" => Len(out) = n
=============================================================================
