----------------------------- MODULE PyTreeSem -----------------------------
(***************************************************************************)
(* Layer D: denotational reference semantics of optree, written from the   *)
(* README / docstrings (and, where those are silent, from the rules        *)
(* collected in DESIGN.md Appendix A).  Everything is a pure operator over *)
(* JSON-compatible model values so that the same definitions serve         *)
(*   - the generator specs (laws checked by TLC on every generated state), *)
(*   - the judges of the conformance traces recorded from the real code.   *)
(*                                                                         *)
(* Encodings (see DESIGN.md 3.1)                                           *)
(*  Key   == <<ty, v>>  ty in KINT..KUNORD                                 *)
(*  Tree  == [k, id, ch, keys, meta, cls, ent, hasent, fault]              *)
(*  Node  == [kind, arity, keys, m, hasent, ent, cls, nl, nn, okeys, hasok]*)
(*  Spec  == [nodes, nil, ns]                                              *)
(*  Cfg   == [nil, ns, haspred, pk, pi, modes, reg, maxdepth]              *)
(*  errors are values: [err |-> "Value"|"Type"|"Runtime"|"Index"|...]      *)
(***************************************************************************)
EXTENDS Naturals, Integers, Sequences, FiniteSets, SequencesExt, TLC

KINT == 0
KSTR == 1
KFLT == 2
KORD == 3
KUNORD == 4
KNEST == 5       \* orderable user class that is nested in another class (its qualified name differs from its name)
KTUP == 7        \* tuple keys: <<KTUP, 2k>> is the 1-tuple (k,), <<KTUP, 2k+1>> the pair (k, 0): (0,) < (0, 0) < (1,) < (1, 0) < ...
KTIE == 6        \* user class with a WEAK order: KTie(v) < KTie(w) iff v \div 2 < w \div 2; KTie(2r), KTie(2r+1) are distinct keys that tie

\* PyTreeKind enum of the engine (registry.h)
NCUSTOM == 0
NLEAF == 1
NNONE == 2
NTUPLE == 3
NLIST == 4
NDICT == 5
NNT == 6
NODICT == 7
NDDICT == 8
NDEQUE == 9
NSS == 10

KindNum(k) ==
  CASE k = "custom" -> NCUSTOM [] k = "leaf" -> NLEAF [] k = "none" -> NNONE
    [] k = "tuple" -> NTUPLE [] k = "list" -> NLIST [] k = "dict" -> NDICT
    [] k = "nt" -> NNT [] k = "odict" -> NODICT [] k = "ddict" -> NDDICT
    [] k = "deque" -> NDEQUE [] k = "ss" -> NSS

KindName(n) ==
  CASE n = NCUSTOM -> "custom" [] n = NLEAF -> "leaf" [] n = NNONE -> "none"
    [] n = NTUPLE -> "tuple" [] n = NLIST -> "list" [] n = NDICT -> "dict"
    [] n = NNT -> "nt" [] n = NODICT -> "odict" [] n = NDDICT -> "ddict"
    [] n = NDEQUE -> "deque" [] n = NSS -> "ss"

DictKinds == {NDICT, NODICT, NDDICT}
IsDictKindName(k) == k \in {"dict", "odict", "ddict"}

Err(e) == [err |-> e]
IsErr(r) == r.err # ""

InSeq(x, s) == \E i \in DOMAIN s : s[i] = x
SeqSum(s) == FoldLeft(LAMBDA a, b : a + b, 0, s)
IndexOf(x, s) == CHOOSE i \in DOMAIN s : s[i] = x
SubSeqFrom(s, i) == SubSeq(s, i, Len(s))
Reverse0(s) == [i \in 1..Len(s) |-> s[Len(s) + 1 - i]]
RECURSIVE Concat(_)
Concat(ss) == IF ss = <<>> THEN <<>> ELSE Head(ss) \o Concat(Tail(ss))

(***************************************************************************)
(* Key ordering (README "Key Ordering for Dictionaries")                   *)
(***************************************************************************)
IsNumKey(k) == k[1] \in {KINT, KFLT}
NumVal(k) == IF k[1] = KINT THEN 2 * k[2] ELSE 2 * k[2] + 1      \* FLT v stands for v + 0.5
Comparable(a, b) == \/ IsNumKey(a) /\ IsNumKey(b)
                    \/ a[1] = b[1] /\ a[1] \in {KSTR, KORD, KNEST, KTIE, KTUP}
KeyLt(a, b) == IF IsNumKey(a) /\ IsNumKey(b) THEN NumVal(a) < NumVal(b)
               ELSE IF a[1] = KTIE /\ b[1] = KTIE THEN (a[2] \div 2) < (b[2] \div 2)
               ELSE a[2] < b[2]
\* rank of f"{type.__module__}.{type.__qualname__}":
\*   builtins.float < builtins.int < builtins.str < builtins.tuple < vuniv.KOrd < vuniv.KTie < vuniv.KUnord < vuniv.Wrap.AOrd
TypeRank(k) == CASE k[1] = KFLT -> 0 [] k[1] = KINT -> 1 [] k[1] = KSTR -> 2 [] k[1] = KTUP -> 3 [] k[1] = KORD -> 4 [] k[1] = KTIE -> 5
                 [] k[1] = KUNORD -> 6 [] k[1] = KNEST -> 7
AllComparable(ks) == \A i, j \in DOMAIN ks : i # j => Comparable(ks[i], ks[j])
SameTypeComparable(ks) == \A i, j \in DOMAIN ks : (i # j /\ ks[i][1] = ks[j][1]) => Comparable(ks[i], ks[j])
TypedLt(a, b) == IF TypeRank(a) # TypeRank(b) THEN TypeRank(a) < TypeRank(b) ELSE KeyLt(a, b)

\* list.sort() is STABLE: keys that tie under < (a weak order) keep their insertion order.  j precedes i in the result iff
\* key j is less, or it came earlier and key i is not less than it
StableSortBy(ks, Lt(_, _)) ==
  LET n == Len(ks)
      Pos(i) == Cardinality({j \in 1..n : j # i /\ (Lt(ks[j], ks[i]) \/ (j < i /\ ~Lt(ks[i], ks[j])))}) + 1
  IN [r \in 1..n |-> ks[CHOOSE i \in 1..n : Pos(i) = r]]
TotalOrderSorted(ks) ==
  IF Len(ks) <= 1 THEN ks
  ELSE IF AllComparable(ks) THEN StableSortBy(ks, KeyLt)
  ELSE IF SameTypeComparable(ks) THEN StableSortBy(ks, TypedLt)
  ELSE ks                                                           \* documented fallback: insertion order

\* two distinct keys neither of which is less than the other although they are comparable (weak order)
Tied(a, b) == a # b /\ a[1] = KTIE /\ b[1] = KTIE /\ (a[2] \div 2) = (b[2] \div 2)
NoTies(ks) == \A i, j \in DOMAIN ks : ~Tied(ks[i], ks[j])
NoDupKeys(ks) == \A i, j \in DOMAIN ks : i # j => ks[i] # ks[j]
SameKeySet(a, b) == Len(a) = Len(b) /\ \A i \in DOMAIN a : InSeq(a[i], b)

(***************************************************************************)
(* Configuration of a call                                                 *)
(***************************************************************************)
Ordered(c) == InSeq(c.ns, c.modes) \/ InSeq("", c.modes)     \* effective dict-order mode of c.ns
OrderedOwn(c) == InSeq(c.ns, c.modes)                         \* own flag only
Registered(c, tid) == \E i \in DOMAIN c.reg :
                         /\ c.reg[i][2] = tid
                         /\ (c.reg[i][1] = "" \/ c.reg[i][1] = c.ns)
PredLeaf(t, c) == c.haspred /\ (InSeq(t.k, c.pk) \/ InSeq(t.id, c.pi))

\* what the registry says about an object that the predicate did not claim
KindOf(t, c) ==
  CASE t.k = "leaf" -> "leaf"
    [] t.k = "sub" -> "leaf"                                  \* subclass instances of built-in containers
    [] t.k = "none" -> IF c.nil THEN "leaf" ELSE "none"
    [] t.k = "custom" -> IF Registered(c, t.cls) THEN "custom" ELSE "leaf"
    [] OTHER -> t.k

LeafId(t) == IF t.k = "none" THEN 0 ELSE t.id

LeafNode == [kind |-> NLEAF, arity |-> 0, keys |-> <<>>, m |-> 0, hasent |-> FALSE, ent |-> <<>>,
             cls |-> 0, nl |-> 1, nn |-> 1, okeys |-> <<>>, hasok |-> FALSE]
NoneNode == [LeafNode EXCEPT !.kind = NNONE, !.nl = 0]

(***************************************************************************)
(* Flatten: left-to-right depth-first, post-order node array               *)
(***************************************************************************)
\* visiting order of the children of a node, as indices into t.ch
ChildOrder(t, c, k) ==
  IF k \in {"dict", "ddict"} /\ ~Ordered(c)
  THEN LET sk == TotalOrderSorted(t.keys) IN [i \in 1..Len(sk) |-> IndexOf(sk[i], t.keys)]
  ELSE [i \in 1..Len(t.ch) |-> i]

Ok(leaves, nodes, cust) == [err |-> "", leaves |-> leaves, nodes |-> nodes, custom |-> cust]

RECURSIVE Flat(_, _, _), FlatSeq(_, _, _, _)
Flat(t, c, d) ==
  IF d > c.maxdepth THEN Err("Recursion")
  ELSE IF PredLeaf(t, c) THEN Ok(<<LeafId(t)>>, <<LeafNode>>, FALSE)
  ELSE LET k == KindOf(t, c) IN
    IF k = "leaf" THEN Ok(<<LeafId(t)>>, <<LeafNode>>, FALSE)
    ELSE IF k = "none" THEN Ok(<<>>, <<NoneNode>>, FALSE)
    ELSE IF k = "custom" /\ t.fault = "tuplelen" THEN Err("Runtime")
    ELSE IF k = "custom" /\ t.fault = "childiter" THEN Err("Type")
    ELSE
      LET ord == ChildOrder(t, c, k)
          kids == [i \in 1..Len(ord) |-> t.ch[ord[i]]]
          sub == FlatSeq(kids, c, d + 1, 1)
      IN IF IsErr(sub) THEN sub
         ELSE IF k = "custom" /\ t.fault = "entiter" THEN Err("Type")
         ELSE IF k = "custom" /\ t.fault = "entlen" THEN Err("Runtime")
         ELSE IF k = "custom" /\ t.fault = "entshort" /\ Len(kids) > 0 THEN Err("Runtime")
         ELSE
           LET node == [kind |-> KindNum(k), arity |-> Len(kids),
                        keys |-> IF IsDictKindName(k) THEN [i \in 1..Len(ord) |-> t.keys[ord[i]]] ELSE <<>>,
                        m |-> CASE k \in {"nt", "ss"} -> t.cls
                                [] k \in {"deque", "ddict", "custom"} -> t.meta
                                [] OTHER -> 0,
                        hasent |-> k = "custom" /\ t.hasent,
                        ent |-> IF k = "custom" /\ t.hasent THEN t.ent ELSE <<>>,
                        cls |-> IF k = "custom" THEN t.cls ELSE 0,
                        nl |-> Len(sub.leaves), nn |-> Len(sub.nodes) + 1,
                        okeys |-> IF k \in {"dict", "ddict"} THEN t.keys ELSE <<>>,
                        hasok |-> k \in {"dict", "ddict"}]
           IN Ok(sub.leaves, Append(sub.nodes, node), sub.custom \/ k = "custom")
FlatSeq(ts, c, d, i) ==
  IF i > Len(ts) THEN Ok(<<>>, <<>>, FALSE)
  ELSE LET h == Flat(ts[i], c, d) IN
       IF IsErr(h) THEN h
       ELSE LET r == FlatSeq(ts, c, d, i + 1) IN
            IF IsErr(r) THEN r
            ELSE Ok(h.leaves \o r.leaves, h.nodes \o r.nodes, h.custom \/ r.custom)

\* the public result: leaves (ids) and the treespec
Flatten(t, c) ==
  LET r == Flat(t, c, 0) IN
  IF IsErr(r) THEN r
  ELSE [err |-> "", leaves |-> r.leaves,
        spec |-> [nodes |-> r.nodes, nil |-> c.nil,
                  ns |-> IF r.custom \/ OrderedOwn(c) THEN c.ns ELSE ""]]

(***************************************************************************)
(* Well-formedness of the post-order encoding (inductive invariant)        *)
(***************************************************************************)
RECURSIVE ChildRoots(_, _, _)
\* positions (indices) of the roots of the children of the node at position p, left to right
ChildRoots(nodes, p, n) ==      \* n = remaining children to find, scanning right-to-left from p-1
  IF n = 0 THEN <<>>
  ELSE LET rest == ChildRoots(nodes, p - nodes[p].nn, n - 1) IN Append(rest, p)
KidsOf(nodes, p) == IF nodes[p].arity = 0 THEN <<>> ELSE ChildRoots(nodes, p - 1, nodes[p].arity)
\* note: ChildRoots(nodes, q, n) returns the roots q, q - nn[q], ... (n of them), in left-to-right order

WellFormed(nodes) ==
  /\ Len(nodes) >= 1
  /\ nodes[Len(nodes)].nn = Len(nodes)
  /\ \A p \in DOMAIN nodes :
       LET nd == nodes[p] IN
       /\ nd.nn >= 1 /\ nd.nn <= p
       /\ nd.kind = NLEAF => nd.arity = 0 /\ nd.nl = 1 /\ nd.nn = 1
       /\ nd.kind = NNONE => nd.arity = 0 /\ nd.nl = 0 /\ nd.nn = 1
       /\ nd.kind \notin {NLEAF, NNONE} =>
            LET ks == KidsOf(nodes, p) IN
            /\ \A i \in DOMAIN ks : ks[i] >= 1
            /\ nd.nn = 1 + SeqSum([i \in DOMAIN ks |-> nodes[ks[i]].nn])
            /\ nd.nl = SeqSum([i \in DOMAIN ks |-> nodes[ks[i]].nl])
       /\ nd.kind \in DictKinds => Len(nd.keys) = nd.arity /\ NoDupKeys(nd.keys)
       /\ nd.hasok => nd.kind \in {NDICT, NDDICT} /\ SameKeySet(nd.okeys, nd.keys)
       /\ nd.hasent => nd.kind = NCUSTOM /\ Len(nd.ent) = nd.arity

\* sub-array of the subtree rooted at position p
SubNodes(nodes, p) == SubSeq(nodes, p - nodes[p].nn + 1, p)

(***************************************************************************)
(* Unflatten.  `pool` maps leaf ids to the tree records they stand for     *)
(* (a leaf can be any object: an opaque leaf, None, a container stopped by *)
(* a predicate, an unregistered custom instance).                          *)
(***************************************************************************)
PlainLeaf(id) == [k |-> "leaf", id |-> id, ch |-> <<>>, keys |-> <<>>, meta |-> 0, cls |-> 0,
                  ent |-> <<>>, hasent |-> FALSE, fault |-> ""]
NoneTree == [PlainLeaf(0) EXCEPT !.k = "none"]

RECURSIVE SubTrees(_)
SubTrees(t) == {t} \cup UNION {SubTrees(t.ch[i]) : i \in DOMAIN t.ch}

Resolve(id, pool) ==
  IF id = 0 THEN NoneTree
  ELSE IF \E s \in pool : s.id = id THEN CHOOSE s \in pool : s.id = id
  ELSE PlainLeaf(id)

\* keys of the rebuilt dict, in its insertion order, paired with the child index in `keys`
DictInsertionOrder(nd) == IF nd.hasok THEN nd.okeys ELSE nd.keys

MakeNode(nd, kids) ==
  LET kn == KindName(nd.kind) IN
  [k |-> kn, id |-> 0 - 1,
   ch |-> IF nd.kind \in DictKinds
          THEN LET ik == DictInsertionOrder(nd) IN [i \in 1..Len(ik) |-> kids[IndexOf(ik[i], nd.keys)]]
          ELSE kids,
   keys |-> IF nd.kind \in DictKinds THEN DictInsertionOrder(nd) ELSE <<>>,
   meta |-> IF nd.kind \in {NDEQUE, NDDICT, NCUSTOM} THEN nd.m ELSE 0,
   cls |-> IF nd.kind \in {NNT, NSS} THEN nd.m ELSE IF nd.kind = NCUSTOM THEN nd.cls ELSE 0,
   ent |-> nd.ent, hasent |-> nd.hasent, fault |-> ""]

RECURSIVE UnflatRun(_, _, _, _, _)
\* stack machine over the node array; returns [err, tree]
UnflatRun(nodes, p, leaves, li, stack) ==
  IF p > Len(nodes)
  THEN IF li <= Len(leaves) THEN Err("Value") ELSE [err |-> "", tree |-> stack[Len(stack)]]
  ELSE LET nd == nodes[p] IN
    IF nd.kind = NLEAF
    THEN IF li > Len(leaves) THEN Err("Value")
         ELSE UnflatRun(nodes, p + 1, leaves, li + 1, Append(stack, leaves[li]))
    ELSE LET n == Len(stack)
             kids == SubSeq(stack, n - nd.arity + 1, n)
             made == IF nd.kind = NNONE THEN NoneTree ELSE MakeNode(nd, kids)
         IN UnflatRun(nodes, p + 1, leaves, li, Append(SubSeq(stack, 1, n - nd.arity), made))

\* leaves given as tree records
UnflattenTrees(spec, leafTrees) == UnflatRun(spec.nodes, 1, leafTrees, 1, <<>>)
\* leaves given as ids, resolved in pool
Unflatten(spec, ids, pool) == UnflattenTrees(spec, [i \in DOMAIN ids |-> Resolve(ids[i], pool)])

\* container identities are not part of the value: erase ids of everything that is rebuilt
RECURSIVE Strip(_, _)
\* c: the config under which the tree is traversed (nodes are rebuilt, leaves keep their identity)
Strip(t, c) ==
  IF PredLeaf(t, c) \/ KindOf(t, c) = "leaf" THEN t
  ELSE IF KindOf(t, c) = "none" THEN NoneTree
  ELSE [t EXCEPT !.id = 0 - 1, !.ch = [i \in DOMAIN t.ch |-> Strip(t.ch[i], c)]]

(***************************************************************************)
(* Paths, entries, accessors computed from the treespec alone              *)
(***************************************************************************)
\* entry of the i-th child of a node, as a Key-like pair; sequence positions are <<KINT, i-1>>
EntryOf(nd, i) ==
  IF nd.hasent THEN nd.ent[i]
  ELSE IF nd.kind \in DictKinds THEN nd.keys[i]
  ELSE <<KINT, i - 1>>
Entries(nd) == [i \in 1..nd.arity |-> EntryOf(nd, i)]

RECURSIVE PathsAt(_, _)
\* paths (sequences of entries) of the leaves below position p, left to right
PathsAt(nodes, p) ==
  LET nd == nodes[p] IN
  IF nd.kind = NLEAF THEN << <<>> >>
  ELSE IF nd.kind = NNONE THEN <<>>
  ELSE LET ks == KidsOf(nodes, p)
       IN Concat([i \in DOMAIN ks |->
                    LET sub == PathsAt(nodes, ks[i]) IN
                    [j \in DOMAIN sub |-> <<EntryOf(nd, i)>> \o sub[j]]])
Paths(spec) == PathsAt(spec.nodes, Len(spec.nodes))

\* typed path: each step also carries the parent's kind and its type tag (class id for nt/ss/custom)
TStep(nd, i) == [e |-> EntryOf(nd, i), kind |-> nd.kind,
                 ty |-> IF nd.kind \in {NNT, NSS} THEN nd.m ELSE IF nd.kind = NCUSTOM THEN nd.cls ELSE 0]
RECURSIVE TPathsAt(_, _)
TPathsAt(nodes, p) ==
  LET nd == nodes[p] IN
  IF nd.kind = NLEAF THEN << <<>> >>
  ELSE IF nd.kind = NNONE THEN <<>>
  ELSE LET ks == KidsOf(nodes, p)
       IN Concat([i \in DOMAIN ks |->
                    LET sub == TPathsAt(nodes, ks[i]) IN
                    [j \in DOMAIN sub |-> <<TStep(nd, i)>> \o sub[j]]])
TypedPaths(spec) == TPathsAt(spec.nodes, Len(spec.nodes))

IsSeqPrefix(a, b) == Len(a) <= Len(b) /\ SubSeq(b, 1, Len(a)) = a
PrefixFree(ps) == \A i, j \in DOMAIN ps : i # j => ~IsSeqPrefix(ps[i], ps[j])

\* follow a path in a tree (under config c: how each node lays out its children)
RECURSIVE Access(_, _, _)
Access(t, path, c) ==
  IF path = <<>> THEN t
  ELSE LET k == KindOf(t, c)
           e == Head(path)
           idx == IF IsDictKindName(k) THEN IndexOf(e, t.keys)
                  ELSE IF k = "custom" /\ t.hasent THEN IndexOf(e, t.ent)
                  ELSE e[2] + 1
       IN Access(t.ch[idx], Tail(path), c)

(***************************************************************************)
(* Inspection                                                              *)
(***************************************************************************)
Root(spec) == spec.nodes[Len(spec.nodes)]
NumLeaves(spec) == Root(spec).nl
NumNodes(spec) == Len(spec.nodes)
NumChildren(spec) == Root(spec).arity
SubSpec(spec, p) == [nodes |-> SubNodes(spec.nodes, p), nil |-> spec.nil, ns |-> spec.ns]
Children(spec) == LET ks == KidsOf(spec.nodes, Len(spec.nodes)) IN [i \in DOMAIN ks |-> SubSpec(spec, ks[i])]
\* Python indexing with negative indices; IndexError as an error value
PyIndex(seq, i) == IF i >= 0 /\ i < Len(seq) THEN [err |-> "", v |-> seq[i + 1]]
                   ELSE IF i < 0 /\ 0 - i <= Len(seq) THEN [err |-> "", v |-> seq[Len(seq) + i + 1]]
                   ELSE Err("Index")
Child(spec, i) == PyIndex(Children(spec), i)
Entry(spec, i) == PyIndex(Entries(Root(spec)), i)
IsLeafSpec(spec, strict) == NumNodes(spec) = 1 /\ (~strict \/ NumLeaves(spec) = 1)
IsOneLevel(spec) == NumNodes(spec) = Root(spec).arity + 1 /\ NumLeaves(spec) = Root(spec).arity
LeafSpec(nil) == [nodes |-> <<LeafNode>>, nil |-> nil, ns |-> ""]
\* one-level spec of the root: same root node, every child replaced by a leaf
OneLevelNode(nd) == [nd EXCEPT !.nl = nd.arity, !.nn = nd.arity + 1]
OneLevel(spec) == [nodes |-> [i \in 1..Root(spec).arity |-> LeafNode] \o <<OneLevelNode(Root(spec))>>,
                   nil |-> spec.nil, ns |-> spec.ns]

(***************************************************************************)
(* Equality and the hash key (A7)                                          *)
(***************************************************************************)
NsCompatible(a, b) == a = b \/ a = "" \/ b = ""
\* what == compares per node
NodeEqKey(nd) == [kind |-> nd.kind, arity |-> nd.arity, keys |-> nd.keys, m |-> nd.m, cls |-> nd.cls]
SpecEq(a, b) ==
  /\ Len(a.nodes) = Len(b.nodes)
  /\ a.nil = b.nil
  /\ NsCompatible(a.ns, b.ns)
  /\ \A p \in DOMAIN a.nodes : NodeEqKey(a.nodes[p]) = NodeEqKey(b.nodes[p])
\* the documented requirement: a function of SpecEq-classes.  Everything a hash may depend on.
HashKeyDoc(a) == [nil |-> a.nil, nodes |-> [p \in DOMAIN a.nodes |-> NodeEqKey(a.nodes[p])]]

(***************************************************************************)
(* Compose / transform (A6)                                                *)
(***************************************************************************)
NsMerge(a, b) == IF b # "" THEN b ELSE a
NumLeavesOf(spec) == spec.nodes[Len(spec.nodes)].nl
RECURSIVE ComposeAt(_, _, _)
\* node array of outer[..p] with every leaf replaced by inner
ComposeAt(onodes, p, inner) ==
  LET nd == onodes[p] IN
  IF nd.kind = NLEAF THEN inner
  ELSE IF nd.kind = NNONE THEN <<nd>>
  ELSE LET ks == KidsOf(onodes, p)
           subs == [i \in DOMAIN ks |-> ComposeAt(onodes, ks[i], inner)]
           body == Concat(subs)
       IN Append(body, [nd EXCEPT !.nn = Len(body) + 1,
                                  !.nl = SeqSum([i \in DOMAIN subs |-> subs[i][Len(subs[i])].nl])])
Compose(a, b) ==
  IF a.nil # b.nil THEN Err("Value")
  ELSE IF a.ns # "" /\ b.ns # "" /\ a.ns # b.ns THEN Err("Value")
  ELSE [err |-> "", spec |-> [nodes |-> ComposeAt(a.nodes, Len(a.nodes), b.nodes), nil |-> a.nil,
                               ns |-> NsMerge(a.ns, b.ns)]]

(***************************************************************************)
(* treespec_from_collection and the named constructors (A6): `t` is the    *)
(* collection object (only its root matters), `kidspecs` the treespecs it  *)
(* holds, in the collection's own (insertion) order.                       *)
(***************************************************************************)
RECURSIVE CommonNs(_, _, _)
\* common non-empty namespace of the specs from index i on: [err, ns]
CommonNs(specs, i, acc) ==
  IF i > Len(specs) THEN [err |-> "", ns |-> acc]
  ELSE IF specs[i].ns = "" THEN CommonNs(specs, i + 1, acc)
  ELSE IF acc = "" THEN CommonNs(specs, i + 1, specs[i].ns)
  ELSE IF acc # specs[i].ns THEN Err("Value")
  ELSE CommonNs(specs, i + 1, acc)
MakeFromCollection(t, kidspecs, c) ==
  LET cc == [c EXCEPT !.haspred = FALSE]
      k == KindOf(t, cc) IN
  IF k = "leaf" THEN [err |-> "", warn |-> TRUE, spec |-> [nodes |-> <<LeafNode>>, nil |-> c.nil, ns |-> c.ns]]
  ELSE IF k = "none" THEN [err |-> "", warn |-> FALSE, spec |-> [nodes |-> <<NoneNode>>, nil |-> c.nil, ns |-> c.ns]]
  ELSE
    LET ord == ChildOrder(t, cc, k)               \* dict kinds: sorted unless the ARGUMENT namespace is insertion-ordered
        kids == [i \in 1..Len(ord) |-> kidspecs[ord[i]]]
        cn == CommonNs(kids, 1, "")
    IN IF \E i \in DOMAIN kids : kids[i].nil # c.nil THEN Err("Value")
       ELSE IF IsErr(cn) THEN Err("Value")
       ELSE IF cn.ns # "" /\ c.ns # "" /\ c.ns # cn.ns THEN Err("Value")
       ELSE
         LET body == Concat([i \in DOMAIN kids |-> kids[i].nodes])
             node == [kind |-> KindNum(k), arity |-> Len(kids),
                      keys |-> IF IsDictKindName(k) THEN [i \in 1..Len(ord) |-> t.keys[ord[i]]] ELSE <<>>,
                      m |-> CASE k \in {"nt", "ss"} -> t.cls [] k \in {"deque", "ddict", "custom"} -> t.meta [] OTHER -> 0,
                      hasent |-> k = "custom" /\ t.hasent, ent |-> IF k = "custom" /\ t.hasent THEN t.ent ELSE <<>>,
                      cls |-> IF k = "custom" THEN t.cls ELSE 0,
                      nl |-> SeqSum([i \in DOMAIN kids |-> NumLeavesOf(kids[i])]), nn |-> Len(body) + 1,
                      okeys |-> IF k \in {"dict", "ddict"} THEN t.keys ELSE <<>>, hasok |-> k \in {"dict", "ddict"}]
         IN [err |-> "", warn |-> FALSE,
             spec |-> [nodes |-> Append(body, node), nil |-> c.nil,
                       ns |-> IF cn.ns # "" THEN cn.ns ELSE IF k = "custom" THEN c.ns ELSE ""]]

(***************************************************************************)
(* Prefix relation, spec vs spec (declarative definition)                  *)
(***************************************************************************)
\* node-level compatibility for prefix/broadcast: same node type, arity, key set / metadata
NodeMatch(x, y) ==
  IF x.kind \in DictKinds
  THEN y.kind \in DictKinds /\ SameKeySet(x.keys, y.keys)
  ELSE /\ x.kind = y.kind /\ x.arity = y.arity
       /\ x.kind \in {NNT, NSS} => x.m = y.m
       /\ x.kind = NCUSTOM => x.cls = y.cls /\ x.m = y.m
       \* deque maxlen (m) deliberately not compared

RECURSIVE PrefixAt(_, _, _, _)
\* a-subtree at pa is a prefix of b-subtree at pb
PrefixAt(an, pa, bn, pb) ==
  LET x == an[pa]  y == bn[pb] IN
  IF x.kind = NLEAF THEN TRUE
  ELSE /\ NodeMatch(x, y)
       /\ LET ka == KidsOf(an, pa)  kb == KidsOf(bn, pb) IN
          \A i \in DOMAIN ka :
             LET j == IF x.kind \in DictKinds THEN IndexOf(x.keys[i], y.keys) ELSE i
             IN PrefixAt(an, ka[i], bn, kb[j])
RECURSIVE StrictAt(_, _, _, _)
\* some leaf of a sits on a non-leaf of b (given PrefixAt)
StrictAt(an, pa, bn, pb) ==
  LET x == an[pa]  y == bn[pb] IN
  IF x.kind = NLEAF THEN y.kind # NLEAF
  ELSE LET ka == KidsOf(an, pa)  kb == KidsOf(bn, pb) IN
       \E i \in DOMAIN ka :
          LET j == IF x.kind \in DictKinds THEN IndexOf(x.keys[i], y.keys) ELSE i
          IN StrictAt(an, ka[i], bn, kb[j])
SpecPrefix(a, b, strict) ==
  /\ a.nil = b.nil
  /\ NsCompatible(a.ns, b.ns)
  /\ PrefixAt(a.nodes, Len(a.nodes), b.nodes, Len(b.nodes))
  /\ strict => StrictAt(a.nodes, Len(a.nodes), b.nodes, Len(b.nodes))

(***************************************************************************)
(* Prefix, spec vs tree: flatten_up_to (A8)                                *)
(***************************************************************************)
\* does the object t (under c) look like spec node x ?
ObjMatch(x, t, c) ==
  LET k == KindOf(t, c) IN      \* no predicate in flatten_up_to: exact type tests
  IF x.kind \in DictKinds
  THEN IsDictKindName(t.k) /\ SameKeySet(x.keys, t.keys)
  ELSE IF x.kind = NNONE THEN t.k = "none"
  ELSE /\ k = KindName(x.kind)
       /\ Len(t.ch) = x.arity
       /\ x.kind \in {NNT, NSS} => x.m = t.cls
       /\ x.kind = NCUSTOM => x.cls = t.cls /\ x.m = t.meta

RECURSIVE UpToAt(_, _, _, _)
\* returns [err, subs] with subs = sequence of subtrees (tree records) at the leaves of spec[..p]
UpToAt(nodes, p, t, c) ==
  LET x == nodes[p] IN
  IF x.kind = NLEAF THEN [err |-> "", subs |-> <<t>>]
  ELSE IF ~ObjMatch(x, t, c) THEN Err("Value")
  ELSE LET ks == KidsOf(nodes, p)
           rs == [i \in DOMAIN ks |->
                    LET j == IF x.kind \in DictKinds THEN IndexOf(x.keys[i], t.keys) ELSE i
                    IN UpToAt(nodes, ks[i], t.ch[j], c)]
       IN IF \E i \in DOMAIN rs : IsErr(rs[i]) THEN Err("Value")
          ELSE [err |-> "", subs |-> Concat([i \in DOMAIN rs |-> rs[i].subs])]
\* the config of flatten_up_to is the spec's own (nil, ns); registry/modes from the world
FlattenUpTo(spec, t, c) == UpToAt(spec.nodes, Len(spec.nodes), t, [c EXCEPT !.nil = spec.nil, !.ns = spec.ns, !.haspred = FALSE])

(***************************************************************************)
(* Broadcast to common suffix: least upper bound in the prefix order (A9)  *)
(***************************************************************************)
RECURSIVE LubAt(_, _, _, _)
\* returns [err, nodes]: node array of the lub of a[..pa] and b[..pb], keeping a's node types/keys
LubAt(an, pa, bn, pb) ==
  LET x == an[pa]  y == bn[pb] IN
  IF x.kind = NLEAF THEN [err |-> "", nodes |-> SubNodes(bn, pb)]
  ELSE IF y.kind = NLEAF THEN [err |-> "", nodes |-> SubNodes(an, pa)]
  ELSE IF ~NodeMatch(x, y) THEN Err("Value")
  ELSE LET ka == KidsOf(an, pa)  kb == KidsOf(bn, pb)
           rs == [i \in DOMAIN ka |->
                    LET j == IF x.kind \in DictKinds THEN IndexOf(x.keys[i], y.keys) ELSE i
                    IN LubAt(an, ka[i], bn, kb[j])]
       IN IF \E i \in DOMAIN rs : IsErr(rs[i]) THEN Err("Value")
          ELSE LET body == Concat([i \in DOMAIN rs |-> rs[i].nodes]) IN
               [err |-> "",
                nodes |-> Append(body, [x EXCEPT !.nn = Len(body) + 1,
                                                 !.nl = SeqSum([i \in DOMAIN rs |-> rs[i].nodes[Len(rs[i].nodes)].nl])])]
Lub(a, b) ==
  IF a.nil # b.nil THEN Err("Value")
  ELSE IF ~NsCompatible(a.ns, b.ns) THEN Err("Value")
  ELSE LET r == LubAt(a.nodes, Len(a.nodes), b.nodes, Len(b.nodes)) IN
       IF IsErr(r) THEN r
       ELSE [err |-> "", spec |-> [nodes |-> r.nodes, nil |-> a.nil, ns |-> NsMerge(b.ns, a.ns)]]

(***************************************************************************)
(* Pickling (A11).  The state carries the whole node array, none_is_leaf   *)
(* and the namespace; custom nodes are re-bound by registry lookup in the  *)
(* LOADING process (recorded namespace first, then global); an unknown     *)
(* custom type makes loading fail - it never yields a treespec.            *)
(***************************************************************************)
RegIn(reg, ns, cls) == \E i \in DOMAIN reg : reg[i][2] = cls /\ (reg[i][1] = "" \/ reg[i][1] = ns)
Unpickle(s, reg) ==
  IF \E p \in DOMAIN s.nodes : s.nodes[p].kind = NCUSTOM /\ ~RegIn(reg, s.ns, s.nodes[p].cls)
  THEN Err("Runtime")
  ELSE [err |-> "", spec |-> s]

(***************************************************************************)
(* Transposition (A10): outer with m > 0 leaves, inner with n > 0 leaves,  *)
(* input leaves x[(i-1)*n + j]  (outer leaf i, inner leaf j)               *)
(***************************************************************************)
TransposeLeaves(xs, m, n) == [k \in 1..(m * n) |-> LET j == ((k - 1) \div m) + 1  i == ((k - 1) % m) + 1 IN xs[(i - 1) * n + j]]
Transpose(outer, inner, xs) ==
  IF outer.nil # inner.nil THEN Err("Value")
  ELSE IF NumLeaves(outer) = 0 \/ NumLeaves(inner) = 0 THEN Err("Value")
  ELSE IF outer.ns # "" /\ inner.ns # "" /\ outer.ns # inner.ns THEN Err("Value")
  ELSE IF Len(xs) # NumLeaves(outer) * NumLeaves(inner) THEN Err("Type")
  ELSE [err |-> "", leaves |-> TransposeLeaves(xs, NumLeaves(outer), NumLeaves(inner)),
        spec |-> Compose(inner, outer).spec]

(***************************************************************************)
(* repr of a treespec (README notation: * for leaves, literal-like         *)
(* containers, NoneIsLeaf / namespace suffixes).  Strings of the universe: *)
(* see harness/vuniv.py (STRS, class names); addresses in function reprs   *)
(* are erased by the harness before comparison.                            *)
(***************************************************************************)
StrTable == <<"", "A", "a", "ab", "b", "key", "x", "y", "z", "zz", "~">>
StrOf(v) == IF v + 1 <= Len(StrTable) THEN StrTable[v + 1]
            ELSE LET n == v - 11 IN "~" \o (IF n < 10 THEN "00" ELSE IF n < 100 THEN "0" ELSE "") \o ToString(n)
IntRepr(v) == IF v < 0 THEN "-" \o ToString(0 - v) ELSE ToString(v)
KeyRepr(k) == CASE k[1] = KINT -> IntRepr(k[2])
                [] k[1] = KSTR -> "'" \o StrOf(k[2]) \o "'"
                [] k[1] = KFLT -> IF k[2] >= 0 THEN ToString(k[2]) \o ".5"
                                  ELSE "-" \o ToString(0 - k[2] - 1) \o ".5"
                [] k[1] = KORD -> "KOrd(" \o ToString(k[2]) \o ")"
                [] k[1] = KUNORD -> "KUnord(" \o ToString(k[2]) \o ")"
                [] k[1] = KNEST -> "AOrd(" \o ToString(k[2]) \o ")"
                [] k[1] = KTIE -> "KTie(" \o ToString(k[2]) \o ")"
                [] k[1] = KTUP -> IF k[2] % 2 = 0 THEN "(" \o ToString(k[2] \div 2) \o ",)" ELSE "(" \o ToString(k[2] \div 2) \o ", 0)"
FactoryRepr(f) == CASE f = 0 -> "None" [] f = 1 -> "<class 'list'>" [] f = 2 -> "<class 'int'>"
                    [] f = 3 -> "<function fac3>" [] OTHER -> "<harness.vuniv._HistFactory object>"
ClassName(c) == CASE c = 1 -> "CA" [] c = 2 -> "CB" [] c = 3 -> "CC" [] c = 4 -> "CU"
                  [] c = 11 -> "NT2" [] c = 12 -> "NT1" [] c = 13 -> "NT0" [] c = 14 -> "NT2b" [] c = 15 -> "NT3"
                  [] c = 21 -> "os.terminal_size" [] c = 22 -> "posix.times_result" [] OTHER -> "?"
FieldsOf(c) == CASE c = 11 -> <<"x", "y">> [] c = 12 -> <<"u">> [] c = 13 -> <<>> [] c = 14 -> <<"x", "y">>
                 [] c = 15 -> <<"p", "q", "r">> [] c = 21 -> <<"columns", "lines">>
                 [] c = 22 -> <<"user", "system", "children_user", "children_system", "elapsed">> [] OTHER -> <<>>
RECURSIVE JoinStr(_, _)
JoinStr(ss, sep) == IF ss = <<>> THEN "" ELSE IF Len(ss) = 1 THEN ss[1] ELSE ss[1] \o sep \o JoinStr(Tail(ss), sep)

RECURSIVE ReprAt(_, _)
ReprAt(nodes, p) ==
  LET nd == nodes[p]
      ks == KidsOf(nodes, p)
      kids == [i \in DOMAIN ks |-> ReprAt(nodes, ks[i])]
      items == [i \in DOMAIN ks |-> KeyRepr(nd.keys[i]) \o ": " \o kids[i]]
      named == [i \in DOMAIN ks |-> FieldsOf(nd.m)[i] \o "=" \o kids[i]]
  IN CASE nd.kind = NLEAF -> "*"
       [] nd.kind = NNONE -> "None"
       [] nd.kind = NTUPLE -> "(" \o JoinStr(kids, ", ") \o (IF nd.arity = 1 THEN "," ELSE "") \o ")"
       [] nd.kind = NLIST -> "[" \o JoinStr(kids, ", ") \o "]"
       [] nd.kind = NDICT -> "{" \o JoinStr(items, ", ") \o "}"
       [] nd.kind = NODICT -> "OrderedDict(" \o (IF nd.arity > 0 THEN "{" \o JoinStr(items, ", ") \o "}" ELSE "") \o ")"
       [] nd.kind = NDDICT -> "defaultdict(" \o FactoryRepr(nd.m) \o ", {" \o JoinStr(items, ", ") \o "})"
       [] nd.kind = NDEQUE -> "deque([" \o JoinStr(kids, ", ") \o "]" \o
                              (IF nd.m # 0 THEN ", maxlen=" \o ToString(nd.m - 1) ELSE "") \o ")"
       [] nd.kind \in {NNT, NSS} -> ClassName(nd.m) \o "(" \o JoinStr(named, ", ") \o ")"
       [] nd.kind = NCUSTOM -> "CustomTreeNode(" \o ClassName(nd.cls) \o "[('meta', " \o ToString(nd.m) \o ")], [" \o
                               JoinStr(kids, ", ") \o "])"
ReprSpec(spec) == "PyTreeSpec(" \o ReprAt(spec.nodes, Len(spec.nodes)) \o
                  (IF spec.nil THEN ", NoneIsLeaf" ELSE "") \o
                  (IF spec.ns # "" THEN ", namespace='" \o spec.ns \o "'" ELSE "") \o ")"
=============================================================================
