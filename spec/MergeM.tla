------------------------------- MODULE MergeM -------------------------------
(***************************************************************************)
(* Layer M for C09: broadcast_to_common_suffix AS THE ENGINE COMPUTES IT   *)
(* (treespec.cpp, BroadcastToCommonSuffixImpl): a recursive walk over the  *)
(* two post-order arrays from their roots downwards with two cursors; the  *)
(* result is emitted root-first (reversed at the end); every call returns  *)
(* how many nodes it walked in each operand and the size of what it built. *)
(* For two dict nodes the children of the other operand are located by key *)
(* through a table of cursors (other_curs) computed from subtree sizes.    *)
(*                                                                         *)
(* TLC checks that the cursor arithmetic computes exactly Lub of layer D   *)
(* on every PairGen pair, and that the walked counts equal the subtree     *)
(* sizes.  PairByPosition = TRUE is the plausible "optimisation" that      *)
(* pairs the children of same-kind dicts by position: refuted by TLC.      *)
(***************************************************************************)
EXTENDS PairGen

CONSTANT PairByPosition

RevS(s) == [i \in 1..Len(s) |-> s[Len(s) + 1 - i]]
RECURSIVE MAt(_, _, _, _)
\* returns [err, rev (nodes emitted root-first), wa, wb (nodes walked in a / b), nn, nl]
MAt(an, pa, bn, pb) ==
  LET x == an[pa]  y == bn[pb] IN
  IF x.kind = NLEAF THEN [err |-> "", rev |-> RevS(SubNodes(bn, pb)), wa |-> 1, wb |-> y.nn, nn |-> y.nn, nl |-> y.nl]
  ELSE IF y.kind = NLEAF THEN [err |-> "", rev |-> RevS(SubNodes(an, pa)), wa |-> x.nn, wb |-> 1, nn |-> x.nn, nl |-> x.nl]
  ELSE IF x.kind = NNONE THEN IF y.kind # NNONE THEN Err("Value") ELSE [err |-> "", rev |-> <<x>>, wa |-> 1, wb |-> 1, nn |-> 1, nl |-> 0]
  ELSE IF ~NodeMatch(x, y) THEN Err("Value")
  ELSE
    \* cursors of the children of y: other_curs[j], computed by stepping down over subtree sizes
    LET ocur == [j \in 1..y.arity |-> KidsOf(bn, pb)[j]]
        isdict == x.kind \in DictKinds
        \* children are visited from the last to the first; `cur` moves down in a by what each call walked
        Step[i \in 0..x.arity] ==
          \* state after having processed children x.arity, x.arity-1, ..., i+1 :  [err, rev, cur, ocurpos, nn, nl]
          IF i = x.arity THEN [err |-> "", rev |-> <<>>, cur |-> pa - 1, oc |-> pb - 1, nn |-> 1, nl |-> 0]
          ELSE LET prev == Step[i + 1] IN
               IF prev.err # "" THEN prev
               ELSE LET child == i + 1
                        opos == IF isdict /\ ~(PairByPosition /\ x.kind = y.kind)
                                THEN ocur[IndexOf(x.keys[child], y.keys)]
                                ELSE prev.oc
                        r == MAt(an, prev.cur, bn, opos)
                    IN IF IsErr(r) THEN [err |-> r.err, rev |-> <<>>, cur |-> 0, oc |-> 0, nn |-> 0, nl |-> 0]
                       ELSE [err |-> "", rev |-> prev.rev \o r.rev, cur |-> prev.cur - r.wa, oc |-> prev.oc - r.wb,
                             nn |-> prev.nn + r.nn, nl |-> prev.nl + r.nl]
        fin == Step[0]
    IN IF fin.err # "" THEN Err(fin.err)
       ELSE [err |-> "", rev |-> <<[x EXCEPT !.nn = fin.nn, !.nl = fin.nl]>> \o fin.rev,
             wa |-> pa - fin.cur, wb |-> IF isdict THEN y.nn ELSE pb - fin.oc, nn |-> fin.nn, nl |-> fin.nl]

MergeM(a, b) ==
  IF a.nil # b.nil \/ ~NsCompatible(a.ns, b.ns) THEN Err("Value")
  ELSE LET r == MAt(a.nodes, Len(a.nodes), b.nodes, Len(b.nodes)) IN
       IF IsErr(r) THEN Err("Value")
       ELSE [err |-> "", spec |-> [nodes |-> RevS(r.rev), nil |-> a.nil, ns |-> NsMerge(a.ns, b.ns)], wa |-> r.wa, wb |-> r.wb]

PInvMergeM == \A p \in obs : \A c \in PairCfgs :
                LET sa == S(p[1], c)  sb == S(p[2], c)  m == MergeM(sa, sb)  l == Lub(sa, sb) IN
                Holds("MergeM", p, c,
                      /\ IsErr(m) = IsErr(l)
                      /\ ~IsErr(m) => /\ m.spec.nodes = l.spec.nodes
                                      /\ m.wa = Len(sa.nodes) /\ m.wb = Len(sb.nodes)      \* "pos != 0 at end" checks of the code
                                      /\ WellFormed(m.spec.nodes))
=============================================================================
