------------------------------- MODULE Engine -------------------------------
(***************************************************************************)
(* Layer M: a code-shaped small-step machine of the traversal engine, one  *)
(* action per engine segment between two points at which the engine runs   *)
(* user code (C15, C16, C17; refinement of layer D).                       *)
(*                                                                         *)
(* op = "flatten": FlattenIntoImpl - explicit agenda instead of recursion; *)
(*   callbacks: is_leaf(x) before every lookup, flatten_func(x) for custom *)
(*   nodes.                                                                *)
(* op = "map":     tree_map = flatten, then UnflattenImpl over the node    *)
(*   array pulling leaves out of map(f, leaves): callbacks f(leaf) and     *)
(*   unflatten_func(node).  The leaf iterator may run at most one element  *)
(*   ahead (pybind11's iterator prefetches): Pull is a separate action.    *)
(*                                                                         *)
(* Every callback can be the one that raises (faultAt = its index): the    *)
(* machine must then stop with status "failed", no result, and hold no     *)
(* references (owned = {}).                                                *)
(***************************************************************************)
EXTENDS PyTreeSem

CONSTANTS Scenarios,    \* set of [t, cfg]: scenario trees with their call configuration
          Ops,          \* subset of {"flatten", "map"}
          MaxFault      \* fault positions explored: 0 (none) .. MaxFault

VARIABLES sc, op, faultAt,
          agenda,       \* flatten: sequence of items [k: "visit"|"close", t, d, (node data)]
          leaves, nodes,\* flatten output so far (leaves as tree records)
          phase,        \* "flatten" | "unflatten" | "end"
          pos,          \* unflatten: next index into nodes
          pulled,       \* unflatten: number of leaves pulled from map(f, leaves) so far (= number of f calls)
          used,         \* unflatten: number of leaves consumed by leaf nodes
          ustack,       \* unflatten: size of the value stack (values themselves are layer D's business)
          ev,           \* callback log: sequence of [cb, arg]
          ncb,          \* number of callbacks made
          status,       \* "run" | "done" | "failed" | "recursion"
          owned         \* ids of objects the engine currently holds references to
evars == <<sc, op, faultAt, agenda, leaves, nodes, phase, pos, pulled, used, ustack, ev, ncb, status, owned>>

Cfg == sc.cfg
Visit(t, d) == [k |-> "visit", t |-> t, d |-> d, node |-> LeafNode, start |-> 0, startl |-> 0]

EInit == /\ sc \in Scenarios /\ op \in Ops /\ faultAt \in 0..MaxFault
         /\ agenda = <<Visit(sc.t, 0)>> /\ leaves = <<>> /\ nodes = <<>>
         /\ phase = "flatten" /\ pos = 1 /\ pulled = 0 /\ used = 0 /\ ustack = 0
         /\ ev = <<>> /\ ncb = 0 /\ status = "run" /\ owned = {}

\* a callback: log it; it raises iff it is the faultAt-th
Callback(cb, arg) == /\ ev' = Append(ev, [cb |-> cb, arg |-> arg]) /\ ncb' = ncb + 1
Raises == ncb + 1 = faultAt
Fail == /\ status' = "failed" /\ owned' = {} /\ phase' = "end"
        /\ UNCHANGED <<sc, op, faultAt, agenda, leaves, nodes, pos, pulled, used, ustack>>

Head0 == agenda[1]
Rest == Tail(agenda)

\* ---- flatten phase ---------------------------------------------------------------------------
\* segment 1: depth check, then the predicate callback (if any)
AskPred ==
  /\ status = "run" /\ phase = "flatten" /\ agenda # <<>> /\ Head0.k = "visit"
  /\ IF Head0.d > Cfg.maxdepth
     THEN /\ status' = "recursion" /\ owned' = {} /\ phase' = "end"
          /\ UNCHANGED <<sc, op, faultAt, agenda, leaves, nodes, pos, pulled, used, ustack, ev, ncb>>
     ELSE IF Cfg.haspred
     THEN /\ Callback("is_leaf", LeafId(Head0.t))
          /\ IF Raises THEN Fail
             ELSE /\ agenda' = <<[Head0 EXCEPT !.k = "classified"]>> \o Rest
                  /\ UNCHANGED <<sc, op, faultAt, leaves, nodes, phase, pos, pulled, used, ustack, status, owned>>
     ELSE /\ agenda' = <<[Head0 EXCEPT !.k = "classified"]>> \o Rest
          /\ UNCHANGED <<sc, op, faultAt, leaves, nodes, phase, pos, pulled, used, ustack, ev, ncb, status, owned>>

ExpandItems(t, k, d) ==
  LET ord == ChildOrder(t, Cfg, k) IN [i \in 1..Len(ord) |-> Visit(t.ch[ord[i]], d + 1)]
NodeOf(t, k) ==
  LET ord == ChildOrder(t, Cfg, k) IN
  [kind |-> KindNum(k), arity |-> Len(ord),
   keys |-> IF IsDictKindName(k) THEN [i \in 1..Len(ord) |-> t.keys[ord[i]]] ELSE <<>>,
   m |-> CASE k \in {"nt", "ss"} -> t.cls [] k \in {"deque", "ddict", "custom"} -> t.meta [] OTHER -> 0,
   hasent |-> k = "custom" /\ t.hasent, ent |-> IF k = "custom" /\ t.hasent THEN t.ent ELSE <<>>,
   cls |-> IF k = "custom" THEN t.cls ELSE 0, nl |-> 0, nn |-> 0,
   okeys |-> IF k \in {"dict", "ddict"} THEN t.keys ELSE <<>>, hasok |-> k \in {"dict", "ddict"}]

\* segment 2: registry lookup; leaf -> emit; None -> node; custom -> flatten_func callback; then children are queued
Classify ==
  /\ status = "run" /\ phase = "flatten" /\ agenda # <<>> /\ Head0.k = "classified"
  /\ LET t == Head0.t  d == Head0.d
         k == IF PredLeaf(t, Cfg) THEN "leaf" ELSE KindOf(t, Cfg)
         close == [k |-> "close", t |-> t, d |-> d, node |-> NodeOf(t, k), start |-> Len(nodes), startl |-> Len(leaves)]
     IN IF k = "leaf"
        THEN /\ leaves' = Append(leaves, t) /\ nodes' = Append(nodes, LeafNode) /\ agenda' = Rest
             /\ owned' = owned \cup {LeafId(t)}
             /\ UNCHANGED <<sc, op, faultAt, phase, pos, pulled, used, ustack, ev, ncb, status>>
        ELSE IF k = "none"
        THEN /\ nodes' = Append(nodes, NoneNode) /\ agenda' = Rest
             /\ UNCHANGED <<sc, op, faultAt, leaves, phase, pos, pulled, used, ustack, ev, ncb, status, owned>>
        ELSE IF k = "custom"
        THEN /\ Callback("flatten", t.id)
             /\ IF Raises THEN Fail
                ELSE /\ agenda' = ExpandItems(t, k, d) \o <<close>> \o Rest
                     /\ UNCHANGED <<sc, op, faultAt, leaves, nodes, phase, pos, pulled, used, ustack, status, owned>>
        ELSE /\ agenda' = ExpandItems(t, k, d) \o <<close>> \o Rest
             /\ UNCHANGED <<sc, op, faultAt, leaves, nodes, phase, pos, pulled, used, ustack, ev, ncb, status, owned>>

\* segment 3: all children done: append the node record with its subtree sizes
Close ==
  /\ status = "run" /\ phase = "flatten" /\ agenda # <<>> /\ Head0.k = "close"
  /\ nodes' = Append(nodes, [Head0.node EXCEPT !.nn = Len(nodes) - Head0.start + 1, !.nl = Len(leaves) - Head0.startl])
  /\ agenda' = Rest
  /\ UNCHANGED <<sc, op, faultAt, leaves, phase, pos, pulled, used, ustack, ev, ncb, status, owned>>

FlattenDone ==
  /\ status = "run" /\ phase = "flatten" /\ agenda = <<>>
  /\ IF op = "flatten" THEN status' = "done" /\ phase' = "end" ELSE status' = "run" /\ phase' = "unflatten"
  /\ UNCHANGED <<sc, op, faultAt, agenda, leaves, nodes, pos, pulled, used, ustack, ev, ncb, owned>>

\* ---- unflatten phase of tree_map ---------------------------------------------------------------
\* the leaf iterator is map(f, leaves): pulling element i calls f(leaf_i); it may be pulled when needed or one ahead
Pull ==
  /\ status = "run" /\ phase = "unflatten" /\ pulled < Len(leaves) /\ pulled <= used     \* at most one ahead of consumption
  /\ Callback("f", LeafId(leaves[pulled + 1]))
  /\ IF Raises THEN Fail
     ELSE /\ pulled' = pulled + 1
          /\ UNCHANGED <<sc, op, faultAt, agenda, leaves, nodes, phase, pos, used, ustack, status, owned>>
\* one node of the array
UStep ==
  /\ status = "run" /\ phase = "unflatten" /\ pos <= Len(nodes)
  /\ LET nd == nodes[pos] IN
     IF nd.kind = NLEAF
     THEN /\ pulled > used                      \* the leaf must have been produced
          /\ used' = used + 1 /\ ustack' = ustack + 1 /\ pos' = pos + 1
          /\ UNCHANGED <<sc, op, faultAt, agenda, leaves, nodes, phase, pulled, ev, ncb, status, owned>>
     ELSE IF nd.kind = NCUSTOM
     THEN /\ Callback("unflatten", nd.m)
          /\ IF Raises THEN Fail
             ELSE /\ ustack' = ustack - nd.arity + 1 /\ pos' = pos + 1
                  /\ UNCHANGED <<sc, op, faultAt, agenda, leaves, nodes, phase, pulled, used, status, owned>>
     ELSE /\ ustack' = ustack - nd.arity + 1 /\ pos' = pos + 1
          /\ UNCHANGED <<sc, op, faultAt, agenda, leaves, nodes, phase, pulled, used, ev, ncb, status, owned>>
UDone ==
  /\ status = "run" /\ phase = "unflatten" /\ pos > Len(nodes) /\ pulled = Len(leaves)
  /\ status' = "done" /\ phase' = "end" /\ owned' = {}
  /\ UNCHANGED <<sc, op, faultAt, agenda, leaves, nodes, pos, pulled, used, ustack, ev, ncb>>

ENext == AskPred \/ Classify \/ Close \/ FlattenDone \/ Pull \/ UStep \/ UDone
ESpec == EInit /\ [][ENext]_evars

\* ---- properties --------------------------------------------------------------------------------
Terminated == status # "run"
\* refinement of layer D: a completed flatten phase produced exactly Flatten(t, cfg)
RefinesD ==
  (phase # "flatten" /\ status \in {"run", "done"}) =>
     LET f == Flatten(sc.t, Cfg) IN
     /\ ~IsErr(f)
     /\ [i \in DOMAIN leaves |-> LeafId(leaves[i])] = f.leaves
     /\ nodes = f.spec.nodes
RecursionAgrees == status = "recursion" <=> (Terminated /\ IsErr(Flatten(sc.t, Cfg)) /\ Flatten(sc.t, Cfg).err = "Recursion" /\ status # "failed")
\* stack discipline of the unflatten walk
StackOK == phase = "unflatten" => ustack >= 0 /\ used <= pulled /\ pulled <= used + 1
\* a failing callback: no result, nothing owned; it fails iff the fault index is within the callbacks actually made
FaultClean == status = "failed" => owned = {} /\ ncb = faultAt /\ phase = "end"
NoMissedFault == status = "done" => (faultAt = 0 \/ faultAt > ncb) /\ ustack = (IF op = "map" THEN 1 ELSE 0)
EInv == RefinesD /\ StackOK /\ FaultClean /\ NoMissedFault /\ RecursionAgrees
=============================================================================
