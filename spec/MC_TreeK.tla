---- MODULE MC_TreeK ----
(* alphabet K: every insertion permutation of small dicts over mixed / mutually incomparable keys *)
EXTENDS TreeLaws
MCKeyU == { <<KINT, 1>>, <<KINT, 2>>, <<KSTR, 1>>, <<KFLT, 1>>, <<KUNORD, 1>>, <<KUNORD, 2>>, <<KORD, 1>>, <<KNEST, 1>>, <<KTIE, 0>>, <<KTIE, 1>>, <<KTUP, 2>> }
MCNtCls == (11 :> [k |-> "nt", arity |-> 2])
MCCustomCls == (1 :> [hasent |-> FALSE])
MCReg0 == << <<"", 1>>, <<"a", 2>>, <<"a", 3>>, <<"b", 3>> >>
MCModeSet == { <<>>, <<"a">> }
MCPredSet == { [haspred |-> FALSE, pk |-> <<>>, pi |-> <<>>] }
====
