--------------------------- MODULE TraceRegistry ---------------------------
(***************************************************************************)
(* Trace validation for the Registry machine (C12, C13), both directions:  *)
(* replays of TLC-generated histories and randomly driven long histories   *)
(* recorded from the real optree are checked step by step: the logged call *)
(* must be explainable by the corresponding Registry action (same result   *)
(* class) and the logged observation vector - what flattening does in      *)
(* every namespace x none_is_leaf, what register_pytree_node.get says,     *)
(* which dict-order mode is effective - must equal the model state after   *)
(* the step.  One initial state per trace; a mismatch is printed with      *)
(* trace id, event index and the failing clause, and stops that trace.     *)
(***************************************************************************)
EXTENDS Registry, Json, IOUtils

Traces == ndJsonDeserialize(IOEnv.TRACES)

VARIABLES tid, l, bad
tvars == <<regN, regL, mirror, gen, modes, ctx, last, tid, l, bad>>

NsSeq == <<"", "a", "b">>
TySeq == <<1, 2, 3, 4>>
BoolSeq == <<FALSE, TRUE>>

TInit == Init /\ tid \in 1..Len(Traces) /\ l = 1 /\ bad = <<>>

Ev == Traces[tid].ev[l]

Builtin(ty) == CASE TypeInfo(ty) = "nt" -> 0 - 1 [] TypeInfo(ty) = "ss" -> 0 - 2 [] OTHER -> 0
Obs(reg, ns, ty) == LET r == LookupIn(reg, ns, ty) IN IF r # 0 THEN r ELSE Builtin(ty)

\* expected observation vectors in the (primed) state given as arguments
ExpLook(rN, rL) == [i \in 1..(3 * 4 * 2) |->
                      LET ns == NsSeq[((i - 1) \div 8) + 1]  ty == TySeq[(((i - 1) \div 2) % 4) + 1]  nil == BoolSeq[((i - 1) % 2) + 1]
                      IN Obs(IF nil THEN rL ELSE rN, ns, ty)]
ExpGet(mir) == [i \in 1..12 |-> LET ns == NsSeq[((i - 1) \div 4) + 1]  ty == TySeq[((i - 1) % 4) + 1] IN Obs(mir, ns, ty)]
\* register_pytree_node.get(namespace=ns) lists exactly the entries registered in ns or globally (ns shadowing global)
ExpAll(mir) == [i \in 1..12 |-> LET ns == NsSeq[((i - 1) \div 4) + 1]  ty == TySeq[((i - 1) % 4) + 1] IN LookupIn(mir, ns, ty)]
ExpEff(ms) == [i \in 1..3 |-> NsSeq[i] \in ms \/ "" \in ms]
ExpOwn(ms) == [i \in 1..3 |-> NsSeq[i] \in ms]

Check(name, cond) == IF cond THEN <<>> ELSE <<name>>
Diagnose(e, rN, rL, mir, ms, cx, res) ==
  Check("result-class", e.res = res) \o
  Check("flatten-lookup", e.obs.look = ExpLook(rN, rL)) \o
  Check("one-level-lookup", e.obs.one = ExpLook(rN, rL)) \o
  Check("get(cls)", e.obs.get = ExpGet(mir)) \o
  Check("get()", e.obs.all = ExpAll(mir)) \o
  Check("effective-mode", \A i \in 1..3 : \A j \in DOMAIN e.obs.eff[i] : e.obs.eff[i][j] = ExpEff(ms)[i]) \o
  Check("own-mode", e.obs.own = ExpOwn(ms)) \o
  Check("get(dict)-reflects-mode", e.obs.getdict = ExpEff(ms)) \o
  Check("roundtrip-in-every-mode", e.obs.rt) \o
  Check("ordereddict-unaffected", e.obs.od) \o
  Check("open-blocks", e.depth = Len(cx))

Act(e) == CASE e.op = "register" -> Register(e.ty, e.ns, e.pet, e.wae)
            [] e.op = "unregister" -> Unregister(e.ty, e.ns)
            [] e.op = "enter" -> Enter(e.pet = "T", e.ns)
            [] e.op = "exit" -> Exit(1, FALSE)
            [] e.op = "raise" -> Exit(e.ty, TRUE)

TNext ==
  /\ bad = <<>> /\ l <= Len(Traces[tid].ev)
  /\ tid' = tid
  /\ IF ENABLED Act(Ev)
     THEN /\ Act(Ev)
          /\ LET d == Diagnose(Ev, regN', regL', mirror', modes', ctx', last'.res) IN
             /\ bad' = d
             /\ l' = l + 1
             /\ d # <<>> => PrintT(<<"FAIL", Traces[tid].tid, l, d>>)
     ELSE /\ bad' = <<"action-not-enabled">> /\ l' = l /\ UNCHANGED <<regN, regL, mirror, gen, modes, ctx, last>>
          /\ PrintT(<<"FAIL", Traces[tid].tid, l, <<"action-not-enabled">>>>)
TSpec == TInit /\ [][TNext]_tvars

\* every fully consumed trace reports itself (so acceptance = all ids reported DONE and none FAIL)
DoneInv == (l = Len(Traces[tid].ev) + 1 /\ bad = <<>>) => PrintT(<<"DONE", Traces[tid].tid>>)
=============================================================================
