------------------------------- MODULE Judge -------------------------------
(***************************************************************************)
(* The conformance judge.  Every case is one call (or a short composite of *)
(* calls) made on the REAL optree, with inputs and outputs projected into  *)
(* the model's encodings.  TLC evaluates the reference semantics on the    *)
(* logged inputs and compares.  The comparison logic exists only here.     *)
(*                                                                         *)
(* Cases are spread over TLC's workers by a binary fan-out over the index  *)
(* range (2N-1 states); failing cases are printed, never abort the run, so *)
(* one pass reports every disagreement.                                    *)
(***************************************************************************)
EXTENDS PyTreeSem, Json, IOUtils

Cases == ndJsonDeserialize(IOEnv.CASES)
N == Len(Cases)

VARIABLES lo, hi
Init == lo = 1 /\ hi = N
Next == /\ lo < hi
        /\ LET mid == (lo + hi) \div 2 IN
           \/ lo' = lo /\ hi' = mid
           \/ lo' = mid + 1 /\ hi' = hi
Spec == Init /\ [][Next]_<<lo, hi>>

Chk(name, cond) == IF cond THEN <<>> ELSE <<name>>
Has(r, f) == f \in DOMAIN r

\* entry class / type tags of accessor steps (A4)
CustomEntryCls(cls) == CASE cls = 1 -> "FlattenedEntry" [] cls = 2 -> "GetItemEntry" [] cls = 3 -> "SequenceEntry"
                         [] OTHER -> "FlattenedEntry"
EntryCls(kind, cls) == CASE kind \in {NTUPLE, NLIST, NDEQUE} -> "SequenceEntry"
                         [] kind \in DictKinds -> "MappingEntry"
                         [] kind = NNT -> "NamedTupleEntry"
                         [] kind = NSS -> "StructSequenceEntry"
                         [] OTHER -> CustomEntryCls(cls)
TypeTag(kind, ty) == CASE kind = NTUPLE -> 101 [] kind = NLIST -> 102 [] kind = NDICT -> 103 [] kind = NODICT -> 104
                       [] kind = NDDICT -> 105 [] kind = NDEQUE -> 106 [] OTHER -> ty
\* field names of the namedtuple / struct-sequence classes of the universe
FieldNames(cls) == CASE cls = 11 -> <<"x", "y">> [] cls = 12 -> <<"u">> [] cls = 13 -> <<>> [] cls = 14 -> <<"x", "y">>
                     [] cls = 15 -> <<"p", "q", "r">> [] cls = 21 -> <<"columns", "lines">>
                     [] cls = 22 -> <<"user", "system", "children_user", "children_system", "elapsed">>
ExpAccs(spec) == LET tp == TypedPaths(spec) IN
                 [i \in DOMAIN tp |-> [j \in DOMAIN tp[i] |->
                     [e |-> tp[i][j].e, kind |-> tp[i][j].kind, ty |-> TypeTag(tp[i][j].kind, tp[i][j].ty),
                      ecls |-> EntryCls(tp[i][j].kind, tp[i][j].ty),
                      name |-> IF tp[i][j].kind \in {NNT, NSS} THEN FieldNames(tp[i][j].ty)[tp[i][j].e[2] + 1] ELSE ""]]]
\* an accessor generates evaluable code unless it passes through a FlattenedEntry
Codifiable(acc) == \A j \in DOMAIN acc : acc[j].ecls # "FlattenedEntry"
AccLaws(o, exp) ==
  LET l == o.laws  ea == ExpAccs(exp.spec) IN
  Chk("acc:routes-equal", l.eq_routes /\ l.hash_routes) \o
  Chk("acc:path-attr", l.path_attr) \o
  Chk("acc:slices", l.slices_typed) \o
  Chk("acc:split-composes", \A i \in DOMAIN l.split : \A j \in DOMAIN l.split[i] : l.split[i][j] = exp.leaves[i]) \o
  Chk("acc:codify-eval", \A i \in DOMAIN l.code : Codifiable(ea[i]) => l.code[i] = exp.leaves[i]) \o
  Chk("acc:distinct-prefix-free", PrefixFree(o.paths) /\ Len(o.paths) = NumLeaves(exp.spec))

\* ---- the flatten family: one clause per entry point ----------------------------------------
OutChecks(o, exp) ==
  IF IsErr(exp) THEN Chk(o.ep \o ":errclass", o.err = exp.err)
  ELSE Chk(o.ep \o ":unexpected-error", o.err = "") \o
       (IF o.err # "" THEN <<>> ELSE
          (IF Has(o, "leaves") THEN Chk(o.ep \o ":leaves", o.leaves = exp.leaves) ELSE <<>>) \o
          (IF Has(o, "spec") THEN Chk(o.ep \o ":spec", o.spec = exp.spec) ELSE <<>>) \o
          (IF Has(o, "paths") THEN Chk(o.ep \o ":paths", o.paths = Paths(exp.spec)) ELSE <<>>) \o
          (IF Has(o, "accs") THEN Chk(o.ep \o ":accessors", o.accs = ExpAccs(exp.spec)) ELSE <<>>) \o
          (IF Has(o, "hits") THEN Chk(o.ep \o ":accessor(tree) is leaf", o.hits = exp.leaves) ELSE <<>>) \o
          (IF Has(o, "laws") THEN AccLaws(o, exp) ELSE <<>>))
FlattenFamily(c) ==
  LET exp == Flatten(c.t, c.cfg) IN
  (IF Has(c, "only_again") THEN <<>> ELSE Concat([j \in DOMAIN c.outs |-> OutChecks(c.outs[j], exp)])) \o
  \* RT2/RT3 on the real outputs: re-flattening a rebuilt tree gives the identical leaves and an equal treespec
  (IF Has(c, "again") /\ c.outs[1].err = ""
   THEN Chk("again:leaves", c.outs[1].leaves = c.again.leaves) \o
        Chk("again:spec-equal", SpecEq(c.outs[1].spec, c.again.spec)) \o
        Chk("again:spec-exact", c.outs[1].spec = c.again.spec)
   ELSE <<>>)

\* ---- C01: the round trip, stated on the real outputs ------------------------------------------
\*  RT1: every rebuild route returns the original tree (same container types, keys in the same order, metadata,
\*       identical leaf objects), built from new containers;  and it is what the specification's Unflatten builds
\*  RT2: flattening it again gives the identical leaves and an equal treespec
\*  RT3: n replacement leaves come back exactly; wrong counts are ValueErrors
RoundTrip(c) ==
  LET f == c.flat  pool == SubTrees(c.t) IN
  Chk("flatten-ok", f.err = "") \o
  (IF f.err # "" THEN <<>> ELSE
     Concat([j \in DOMAIN c.rebuilt |->
        LET r == c.rebuilt[j] IN
        Chk(r.via \o ":no-error", r.err = "") \o
        (IF r.err # "" THEN <<>> ELSE
           Chk(r.via \o ":same-tree", r.tree = Strip(c.t, c.cfg)) \o
           Chk(r.via \o ":spec-unflatten", r.tree = Unflatten(f.spec, f.leaves, pool).tree))]) \o
     (IF Has(c, "again") THEN
        Chk("again:no-error", c.again.err = "") \o
        (IF c.again.err # "" THEN <<>> ELSE
           Chk("again:leaves", c.again.leaves = f.leaves) \o
           Chk("again:spec-equal", SpecEq(c.again.spec, f.spec) /\ HashKeyDoc(c.again.spec) = HashKeyDoc(f.spec)) \o
           Chk("again:spec-exact", c.again.spec = f.spec))
      ELSE <<>>) \o
     (LET r == c.rep IN
        Chk("rep:no-error", r.err = "") \o
        (IF r.err # "" THEN <<>> ELSE
           Chk("rep:spec-unflatten", r.tree = Unflatten(f.spec, r.ids, {}).tree) \o
           Chk("rep:again-leaves", r.again.err = "" /\ r.again.leaves = r.ids) \o
           Chk("rep:again-spec", r.again.err = "" /\ SpecEq(r.again.spec, f.spec) /\ r.again.spec = f.spec))) \o
     Chk("wrong-count:ValueError", \A j \in DOMAIN c.bad : c.bad[j].err = "Value"))

\* ---- C02: consequences of the ordering / classification rules, on the real outputs -----------
RECURSIVE ReplaceNones(_, _, _)
ReplaceNones(t, sid, c) ==
  IF t.k = "none" THEN PlainLeaf(sid)
  ELSE IF KindOf(t, c) = "leaf" THEN t
  ELSE [t EXCEPT !.id = 0 - 1, !.ch = [i \in DOMAIN t.ch |-> ReplaceNones(t.ch[i], sid, c)]]
RECURSIVE SortableT(_)
SortableT(t) == /\ t.k \in {"dict", "ddict"} => ((AllComparable(t.keys) \/ SameTypeComparable(t.keys)) /\ NoTies(t.keys))
                /\ \A i \in DOMAIN t.ch : SortableT(t.ch[i])
C02Laws(c) ==
  LET ok(r) == r.err = "" IN
  Chk("no-error", ok(c.nilF) /\ ok(c.nilT) /\ ok(c.withpred) /\ ok(c.nopred) /\ ok(c.shuf)) \o
  (IF ~(ok(c.nilF) /\ ok(c.nilT) /\ ok(c.withpred) /\ ok(c.nopred) /\ ok(c.shuf)) THEN <<>> ELSE
   \* (a predicate that itself claims None as a leaf is outside the statement)
   Chk("none-removal", ~PredLeaf(NoneTree, c.cfg) => c.nilF.leaves = SelectSeq(c.nilT.leaves, LAMBDA x : x # 0)) \o
   Chk("pred-refinement", (\A j \in DOMAIN c.parts : ok(c.parts[j])) /\
                          Concat([j \in DOMAIN c.parts |-> c.parts[j].leaves]) = c.nopred.leaves) \o
   Chk("insertion-order-invariance", (~Ordered(c.cfg) /\ SortableT(c.t)) =>
                                        c.shuf.leaves = c.withpred.leaves /\ SpecEq(c.shuf.spec, c.withpred.spec)
                                        /\ HashKeyDoc(c.shuf.spec) = HashKeyDoc(c.withpred.spec)) \o
   Chk("replace_nones", c.replace_nones.err = "" /\
                        c.replace_nones.tree = ReplaceNones(c.t, c.replace_nones.sentinel,
                                                            [c.cfg EXCEPT !.nil = FALSE, !.haspred = FALSE])))

\* ---- C03: what the entry points must agree on beyond leaves/specs ------------------------------
C03Extra(c) ==
  LET exp == Flatten(c.t, c.cfg) IN
  IF IsErr(exp) THEN Chk("errclass", c.err = exp.err)
  ELSE Chk("unexpected-error", c.err = "") \o
  (IF c.err # "" THEN <<>> ELSE
   Chk("leaves", c.leaves = exp.leaves) \o
   Chk("specs-equal-hash-repr", c.specs_equal /\ c.specs_hash /\ c.specs_repr) \o
   Chk("paths-from-spec", c.spec_paths = Paths(exp.spec) /\ c.tree_paths = c.spec_paths) \o
   Chk("accessors-from-spec", c.spec_accs = ExpAccs(exp.spec) /\ c.tree_accs = c.spec_accs) \o
   Chk("counts", \A j \in DOMAIN c.counts : c.counts[j] = Len(exp.leaves)) \o
   Chk("counts-paths", Len(c.spec_paths) = Len(exp.leaves) /\ Len(c.spec_accs) = Len(exp.leaves)) \o
   Chk("tree_is_leaf", \A j \in DOMAIN c.is_leaf :
          LET s == c.is_leaf[j].sub IN
          c.is_leaf[j].is_leaf = (PredLeaf(s, c.cfg) \/ KindOf(s, c.cfg) = "leaf")) \o
   Chk("all_leaves(leaves)", c.all_leaves_of_leaves =
          \A j \in DOMAIN exp.leaves :
             LET s == Resolve(exp.leaves[j], SubTrees(c.t)) IN PredLeaf(s, c.cfg) \/ KindOf(s, c.cfg) = "leaf") \o
   (IF Has(c, "all_leaves_children")
    THEN Chk("all_leaves(children)", c.all_leaves_children.v =
               \A j \in DOMAIN c.t.ch : PredLeaf(c.t.ch[j], c.cfg) \/ KindOf(c.t.ch[j], c.cfg) = "leaf")
    ELSE <<>>) \o
   (IF Has(c, "folds")
    THEN LET f == c.folds  tot == SeqSum(exp.leaves) IN
         Chk("tree_reduce", f.reduce = tot /\ f.py_reduce = tot /\ f.reduce_init = tot + 1000) \o
         Chk("tree_sum", f.sum = tot /\ f.py_sum = tot) \o
         Chk("tree_max/min", (\A j \in DOMAIN exp.leaves : exp.leaves[j] <= f.max /\ exp.leaves[j] >= f.min)
                             /\ InSeq(f.max, exp.leaves) /\ InSeq(f.min, exp.leaves)) \o
         Chk("tree_all/any", f.all = f.py_all /\ f.any = f.py_any
                             /\ f.all = (\A j \in DOMAIN exp.leaves : exp.leaves[j] % 2 = 1)
                             /\ f.any = (\E j \in DOMAIN exp.leaves : exp.leaves[j] % 2 = 1))
    ELSE <<>>))

\* nesting around the depth limit, bound by offset: the model runs the scenario at MaxDepth = 4
RECURSIVE ChainT(_, _)
ChainT(kind, n) ==
  IF n = 0 THEN PlainLeaf(1)
  ELSE LET sub == ChainT(kind, n - 1)
           base == [PlainLeaf(0 - 1) EXCEPT !.k = kind]
       IN CASE kind \in {"dict", "odict", "ddict"} -> [base EXCEPT !.ch = <<sub>>, !.keys = << <<KSTR, 2>> >>]
            [] kind = "nt" -> [base EXCEPT !.ch = <<sub>>, !.cls = 12]
            [] kind = "ss" -> [base EXCEPT !.ch = <<sub, PlainLeaf(2)>>, !.cls = 21]
            [] kind = "custom" -> [base EXCEPT !.ch = <<sub>>, !.cls = 1, !.meta = 1]
            [] OTHER -> [base EXCEPT !.ch = <<sub>>]
DepthCase(c) ==
  LET cfg == [nil |-> c.nil, ns |-> "", haspred |-> c.pred, pk |-> <<"leaf">>, pi |-> <<>>, modes |-> <<>>,
              reg |-> << <<"", 1>> >>, maxdepth |-> 4]
      exp == IF c.delta = 99 THEN Err("Recursion") ELSE Flatten(ChainT(c.kind, 4 + c.delta), cfg)
  IN Concat([j \in DOMAIN c.outs |->
        LET o == c.outs[j] IN
        IF IsErr(exp) THEN Chk(o.ep \o ":errclass", o.err = exp.err)
        \* leaf counts are compared relative to the nesting depth (struct sequences carry a second field per level)
        ELSE Chk(o.ep \o ":works-at-limit", o.err = "" /\ o.n = Len(exp.leaves) + (IF c.kind = "ss" THEN c.depth - (4 + c.delta) ELSE 0))]) \o
     Chk("limit-is-exact", IsErr(exp) <=> c.delta > 0)

\* ---- pairs: equality/hash (C06), prefix x3 (C07), broadcast (C09), compose/transform (C08) -----
\* All clauses are stated on the projected REAL treespecs sa, sb (flattening itself is judged by C02).
OkV(r) == r.err = ""
EqClauses(c) ==
  LET e == c.eq  exp == SpecEq(c.sa, c.sb) IN
  Chk("eq:a==b", e.ab = exp) \o Chk("eq:symmetric", e.ba = e.ab) \o Chk("eq:ne-is-negation", e.ne = ~e.ab) \o
  Chk("eq:reflexive", e.aa) \o Chk("eq:hash-contract", e.ab => e.hash_eq) \o Chk("eq:hash-stable", e.hash_stable) \o
  Chk("eq:other-type", e.other_type) \o
  Concat([j \in DOMAIN e.routes |->
     LET r == e.routes[j] IN
     Chk("route:" \o r.route \o ":no-error", r.err = "") \o
     (IF r.err # "" THEN <<>> ELSE
        Chk("route:" \o r.route \o ":equal", r.eq = SpecEq(r.spec, c.sa) /\ r.eq) \o
        Chk("route:" \o r.route \o ":hash", r.hash /\ r.in_set /\ r.dict_key))])

PrefixClauses(c) ==
  LET p == c.prefix
      cfgb == [c.cfg EXCEPT !.haspred = FALSE]
      exp == SpecPrefix(c.sa, c.sb, FALSE)
      exps == SpecPrefix(c.sa, c.sb, TRUE)
      fut == FlattenUpTo(c.sa, c.b, cfgb)
      names == <<"is_prefix", "is_suffix", "le", "ge", "fn_is_prefix", "fn_is_suffix">>
      snames == <<"is_prefix_strict", "is_suffix_strict", "lt", "gt">>
  IN Concat([j \in DOMAIN names |-> Chk("prefix:" \o names[j], OkV(p[names[j]]) /\ p[names[j]].v = exp)]) \o
     Concat([j \in DOMAIN snames |-> Chk("prefix:" \o snames[j], OkV(p[snames[j]]) /\ p[snames[j]].v = exps)]) \o
     \* flatten_up_to succeeds exactly when sa is a prefix; ValueError otherwise; returns the subtrees at sa's leaves
     Chk("flatten_up_to:agrees-with-is_prefix", (c.flatten_up_to.err = "") = exp) \o
     Chk("flatten_up_to:agrees-with-spec", (c.flatten_up_to.err = "") = ~IsErr(fut)) \o
     Chk("flatten_up_to:ValueError", c.flatten_up_to.err \in {"", "Value"}) \o
     (IF c.flatten_up_to.err = "" /\ ~IsErr(fut) THEN Chk("flatten_up_to:subtrees", c.flatten_up_to.v = fut.subs) ELSE <<>>) \o
     Chk("prefix_errors:no-exception", c.prefix_errors.err = "") \o
     (IF c.prefix_errors.err = "" THEN Chk("prefix_errors:agrees", (c.prefix_errors.v = 0) = exp) ELSE <<>>) \o
     Chk("tree_map:rest-check", IF exp THEN c.tree_map.err = "" /\ c.tree_map.calls = NumLeaves(c.sa)
                                ELSE c.tree_map.err = "Value" /\ c.tree_map.calls = 0)

\* Owner(p, l): for p <= l, the index of the p-leaf that sits above each leaf of l (in l's leaf order);
\* children of dict nodes are matched by key.
RECURSIVE OwnerAt(_, _, _, _, _)
OwnerAt(pn, pp, ln, pl, base) ==
  LET x == pn[pp]  y == ln[pl] IN
  IF x.kind = NLEAF THEN [i \in 1..y.nl |-> base + 1]
  ELSE LET kp == KidsOf(pn, pp)  kl == KidsOf(ln, pl)
           offs == [i \in DOMAIN kp |-> SeqSum([j \in 1..(i - 1) |-> pn[kp[j]].nl])]
           part(j) == LET i == IF y.kind \in DictKinds THEN IndexOf(y.keys[j], x.keys) ELSE j
                      IN OwnerAt(pn, kp[i], ln, kl[j], base + offs[i])
       IN Concat([j \in DOMAIN kl |-> part(j)])
Owner(p, l) == OwnerAt(p.nodes, Len(p.nodes), l.nodes, Len(l.nodes), 0)
\* every p-leaf value repeated once per l-leaf below it, in p's leaf order
RepInOwnOrder(xs, owner) == Concat([i \in DOMAIN xs |-> [k \in 1..Cardinality({k \in DOMAIN owner : owner[k] = i}) |-> xs[i]]])

BroadcastClauses(c) ==
  LET l == Lub(c.sa, c.sb)
      la == Flatten(c.a, c.cfg).leaves   lb == Flatten(c.b, c.cfg).leaves
      pre == SpecPrefix(c.sa, c.sb, FALSE)
  IN Chk("bcs:error-iff-conflict", (c.bcs.err = "") = ~IsErr(l)) \o
     Chk("bcs:ValueError", c.bcs.err \in {"", "Value"}) \o
     (IF c.bcs.err = "" /\ ~IsErr(l) THEN
        Chk("bcs:least-common-suffix", c.bcs.v = l.spec) \o
        Chk("bcs:paths", c.bcs.paths = Paths(l.spec)) \o
        Chk("bcs:accessors", c.bcs.accs = ExpAccs(l.spec)) \o
        Chk("bcs:entries", c.bcs.entries = Entries(Root(l.spec))) \o
        Chk("bcs:both-are-prefixes", SpecPrefix(c.sa, c.bcs.v, FALSE) /\ SpecPrefix(c.sb, c.bcs.v, FALSE)) \o
        Chk("bcs:equal-to-other-when-prefix", pre => (SpecPrefix(c.bcs.v, c.sb, FALSE) /\ SpecPrefix(c.sb, c.bcs.v, FALSE)))
      ELSE <<>>) \o
     \* tree_broadcast_prefix / broadcast_prefix: defined iff a <= b
     Chk("broadcast_prefix:defined-iff-prefix", (c.bp.err = "") = pre /\ (c.tbp.err = "") = pre /\ c.bp.err \in {"", "Value"} /\ c.tbp.err \in {"", "Value"}) \o
     (IF c.bp.err = "" /\ pre THEN
        Chk("broadcast_prefix:leaves", c.bp.v = RepInOwnOrder(la, Owner(c.sa, c.sb))) ELSE <<>>) \o
     (IF c.tbp.err = "" /\ c.bp.err = "" /\ pre THEN
        LET ft == Flatten(c.tbp.v, c.cfg) IN
        Chk("tree_broadcast_prefix:tree", ft.leaves = c.bp.v /\ SpecPrefix(ft.spec, c.sb, FALSE) /\ SpecPrefix(c.sb, ft.spec, FALSE)) ELSE <<>>) \o
     Chk("broadcast_common:defined-iff-compatible", (c.bc.err = "") = ~IsErr(l) /\ (c.tbc.err = "") = ~IsErr(l)) \o
     (IF c.bc.err = "" /\ c.tbc.err = "" /\ ~IsErr(l) THEN
        Chk("broadcast_common:first", c.bc.v[1] = RepInOwnOrder(la, Owner(c.sa, l.spec))) \o
        \* broadcast_common aligns the second list with the first (position k of both belongs to leaf k of the common suffix)
        Chk("broadcast_common:second", c.bc.v[2] = [k \in DOMAIN Owner(c.sb, l.spec) |-> lb[Owner(c.sb, l.spec)[k]]]) \o
        Chk("tree_broadcast_common:trees",
              LET f1 == Flatten(c.tbc.v[1], c.cfg)  f2 == Flatten(c.tbc.v[2], c.cfg) IN
              /\ f1.leaves = c.bc.v[1] /\ f2.leaves = RepInOwnOrder(lb, Owner(c.sb, l.spec))
              /\ SpecPrefix(f1.spec, l.spec, FALSE) /\ SpecPrefix(l.spec, f1.spec, FALSE)
              /\ SpecPrefix(f2.spec, l.spec, FALSE) /\ SpecPrefix(l.spec, f2.spec, FALSE)
              /\ SpecPrefix(c.sa, f1.spec, FALSE) /\ SpecPrefix(c.sb, f2.spec, FALSE))
      ELSE <<>>) \o
     Chk("tree_broadcast_map:defined", (c.tbm.err = "") = ~IsErr(l)) \o
     (IF c.tbm.err = "" /\ ~IsErr(l) THEN
        LET oa == Owner(c.sa, l.spec)  ob == Owner(c.sb, l.spec) IN
        Chk("tree_broadcast_map:calls", c.tbm.calls = [k \in DOMAIN oa |-> <<la[oa[k]], lb[ob[k]]>>]) \o
        \* the with_path / with_accessor variants pass the path / accessor of the leaf in the COMMON SUFFIX first
        Chk("tree_broadcast_map_with_path:calls", c.tbm_path.err = "" /\
              c.tbm_path.calls = [k \in DOMAIN oa |-> <<Paths(l.spec)[k], la[oa[k]], lb[ob[k]]>>]) \o
        Chk("tree_broadcast_map_with_accessor:calls", c.tbm_acc.err = "" /\
              c.tbm_acc.calls = [k \in DOMAIN oa |-> <<ExpAccs(l.spec)[k], la[oa[k]], lb[ob[k]]>>]) ELSE <<>>)

ComposeClauses(c) ==
  LET e == Compose(c.sa, c.sb) IN
  Chk("compose:error-class", IF IsErr(e) THEN c.compose.err = e.err ELSE c.compose.err = "") \o
  (IF c.compose.err = "" /\ ~IsErr(e) THEN
     Chk("compose:spec", c.compose.v = e.spec) \o
     Chk("compose:num_leaves-multiply", NumLeaves(c.compose.v) = NumLeaves(c.sa) * NumLeaves(c.sb)) \o
     Chk("compose:wellformed", WellFormed(c.compose.v.nodes)) \o
     \* "equals": the namespace of a leafless outer treespec is only merged by compose (the leaf function is never consulted)
     Chk("transform(leaf->s)=compose(s)", c.transform_leaf.err = "" /\ SpecEq(c.transform_leaf.v, c.compose.v)
                                            /\ c.transform_leaf.v.nodes = c.compose.v.nodes)
   ELSE <<>>) \o
  Chk("transform(id,id)=id", c.transform_id.err = "" /\ c.transform_id.v = c.sa)

\* ---- C05: the map family --------------------------------------------------------------------
\* expected calls: one per leaf of a, in flatten order; k-th rest argument = subtree of rest k at the leaf's path
MapCase(c) ==
  LET fa == Flatten(c.a, c.cfg)
      cfgr == [c.cfg EXCEPT !.haspred = FALSE]
      ups == [k \in DOMAIN c.rests |-> FlattenUpTo(c.sa, c.rests[k], cfgr)]
      bad == \E k \in DOMAIN ups : IsErr(ups[k])
      n == Len(fa.leaves)
      tps == ExpAccs(c.sa)
  IN Chk("structure", c.sa = fa.spec) \o
     Concat([j \in DOMAIN c.variants |->
        LET v == c.variants[j] IN
        IF bad
        THEN Chk(v.name \o ":ValueError-before-any-call", v.err = "Value" /\ v.calls = <<>>)
        ELSE Chk(v.name \o ":no-error", v.err = "") \o
             Chk(v.name \o ":once-per-leaf-in-order", Len(v.calls) = n /\ \A i \in DOMAIN v.calls : v.calls[i].x = fa.leaves[i]) \o
             Chk(v.name \o ":aligned-rests", \A i \in DOMAIN v.calls :
                    v.calls[i].rests = [k \in DOMAIN c.rests |-> ups[k].subs[i]]) \o
             (IF v.extra = "path" THEN Chk(v.name \o ":path-argument", \A i \in DOMAIN v.calls : v.calls[i].path = Paths(c.sa)[i]) ELSE <<>>) \o
             (IF v.extra = "acc" THEN Chk(v.name \o ":accessor-argument", \A i \in DOMAIN v.calls : v.calls[i].acc = tps[i]) ELSE <<>>) \o
             (IF v.err # "" THEN <<>>
              ELSE IF v.inplace THEN Chk(v.name \o ":returns-original-object", v.same_object)
              ELSE Chk(v.name \o ":result", ~v.same_object \/ n = 0 \/ KindOf(c.a, c.cfg) = "leaf") \o
                   Chk(v.name \o ":result-tree",
                       v.tree = Unflatten(c.sa, [i \in DOMAIN v.calls |-> v.calls[i].out], {}).tree))]) \o
     Chk("identity-map", c.identity.err = "" /\ c.identity.tree = Strip(c.a, c.cfg)) \o
     Chk("functor-law", c.functor.err = "" /\ c.functor.lhs = c.functor.rhs) \o
     \* traverse / walk: the call log is the post-order node array itself
     (LET tl == c.traverse.log  wl == c.walk.log  nodes == c.sa.nodes
          leafpos(p) == Cardinality({q \in 1..p : nodes[q].kind = NLEAF})
      IN Chk("traverse:no-error", c.traverse.err = "" /\ c.walk.err = "") \o
         Chk("traverse:one-call-per-node-in-post-order",
             Len(tl) = Len(nodes) /\ \A p \in DOMAIN nodes :
                 IF nodes[p].kind = NLEAF THEN tl[p].k = "leaf" /\ tl[p].x = fa.leaves[leafpos(p)]
                 ELSE tl[p].k = "node") \o
         Chk("walk:one-call-per-node-in-post-order",
             Len(wl) = Len(nodes) /\ \A p \in DOMAIN nodes :
                 IF nodes[p].kind = NLEAF THEN wl[p].k = "leaf" /\ wl[p].x = fa.leaves[leafpos(p)]
                 ELSE /\ wl[p].k = "node" /\ wl[p].arity = nodes[p].arity /\ wl[p].children_is_tuple
                      \* f_node(type, node_data, children): the node's type and raw metadata
                      /\ wl[p].ty = (IF nodes[p].kind = NNONE THEN 100
                                     ELSE TypeTag(nodes[p].kind, IF nodes[p].kind = NCUSTOM THEN nodes[p].cls ELSE nodes[p].m))
                      /\ wl[p].data.keys = nodes[p].keys
                      /\ (nodes[p].kind \in {NDDICT, NDEQUE, NNT, NSS, NCUSTOM} => wl[p].data.m = nodes[p].m)) \o
         (IF c.traverse.err = "" THEN Chk("traverse:rebuilds", c.traverse.tree = Strip(c.a, c.cfg)) ELSE <<>>))

\* ---- C10: transposition ----------------------------------------------------------------------
TransposeCase(c) ==
  LET m == NumLeaves(c.so)  n == NumLeaves(c.si)
      exp == Transpose(c.so, c.si, c.in_leaves)
      mapchk(r, nm, extra) ==
        IF m = 0 \/ n = 0 THEN Chk(nm \o ":empty-structure-rejected", r.err = "Value")
        ELSE Chk(nm \o ":no-error", r.err = "") \o
             (IF r.err # "" THEN <<>> ELSE
                Chk(nm \o ":calls", Len(r.calls) = m /\ \A i \in DOMAIN r.calls : r.calls[i].x = Flatten(c.a, c.cfg).leaves[i]) \o
                (IF extra = "path" THEN Chk(nm \o ":path-argument", \A i \in DOMAIN r.calls : r.calls[i].path = Paths(c.so)[i]) ELSE <<>>) \o
                (IF extra = "acc" THEN Chk(nm \o ":accessor-argument", \A i \in DOMAIN r.calls : r.calls[i].acc = ExpAccs(c.so)[i]) ELSE <<>>) \o
                Chk(nm \o ":result", r.v.leaves = TransposeLeaves(Concat([i \in DOMAIN r.calls |-> r.calls[i].outs]), m, n)
                                      /\ r.v.spec.nodes = Compose(c.si, c.so).spec.nodes))
  IN (IF IsErr(exp) THEN Chk("error-class", c.fwd.err = exp.err)
      ELSE Chk("no-error", c.fwd.err = "") \o
           (IF c.fwd.err # "" THEN <<>> ELSE
              Chk("value-law", c.fwd.v.leaves = exp.leaves) \o
              Chk("inner-of-outer", c.fwd.v.spec.nodes = exp.spec.nodes /\ NumLeaves(c.fwd.v.spec) = m * n) \o
              Chk("involution", c.back.err = "" /\ c.back.v.leaves = c.in_leaves /\ c.back.same_as_input
                                /\ c.back.v.spec.nodes = Compose(c.so, c.si).spec.nodes)) \o
           Chk("wrong-leaf-count-rejected", c.errs.too_many \in {"Type", "Value"} /\ c.errs.too_few \in {"Type", "Value"})) \o
     Chk("none_is_leaf-mismatch-rejected", c.errs.nil_mismatch = "Value") \o
     mapchk(c.tree_transpose_map, "tree_transpose_map", "") \o
     mapchk(c.tree_transpose_map_given, "tree_transpose_map(inner given)", "") \o
     mapchk(c.tree_transpose_map_with_path, "tree_transpose_map_with_path", "path") \o
     mapchk(c.tree_transpose_map_with_path_given, "tree_transpose_map_with_path(inner given)", "path") \o
     mapchk(c.tree_transpose_map_with_accessor, "tree_transpose_map_with_accessor", "acc") \o
     mapchk(c.tree_transpose_map_with_accessor_given, "tree_transpose_map_with_accessor(inner given)", "acc") \o
     \* (a leaf inner structure matches anything, so there is nothing to reject)
     Chk("varying-inner-shape-rejected", (NumNodes(c.si) > 1 /\ n > 0) => c.varying \in {"Value", "Type"})

\* ---- C11: pickling ---------------------------------------------------------------------------
\* same-process and cross-process loads; `world` is the registry of the loading process
PickleCase(c) ==
  LET s == c.spec
      exp == Unpickle(s, c.world)
      obs(o) == Chk(o.via \o ":exact-state", o.spec = s) \o
                Chk(o.via \o ":equal-and-hash", o.eq /\ o.hash_eq) \o
                Chk(o.via \o ":repr", o.repr = ReprSpec(s)) \o
                Chk(o.via \o ":paths", o.paths = Paths(s)) \o
                Chk(o.via \o ":accessors", o.accs = ExpAccs(s)) \o
                Chk(o.via \o ":entries", o.entries = Entries(Root(s))) \o
                Chk(o.via \o ":children", o.children = Children(s)) \o
                Chk(o.via \o ":unflatten", o.tree = Unflatten(s, o.leaves, {}).tree)
  IN Concat([j \in DOMAIN c.loads |->
        LET o == c.loads[j] IN
        IF IsErr(exp) THEN Chk(o.via \o ":unknown-type-raises", o.err # "")
        ELSE Chk(o.via \o ":no-error", o.err = "") \o (IF o.err = "" THEN obs(o) ELSE <<>>)]) \o
     (IF Has(c, "fresh") /\ ~IsErr(exp)
      THEN Chk("equals-fresh-flatten", c.fresh.same_class => (c.fresh.spec = s /\ c.fresh.eq /\ c.fresh.hash_eq))
      ELSE <<>>)

\* ---- C18: Python twins vs engine vs the rule ---------------------------------------------------
NTRule(tr) == tr.tuplesub /\ tr.fields \in {"tuple_of_str", "empty_tuple"} /\ tr.make = "callable" /\ tr.asdict = "callable"
ClassifyCase(c) ==
  LET truth == NTRule(c.traits)  a == c.ans IN
  Chk("is_namedtuple_class:engine", a.is_namedtuple_class[1] = truth) \o
  Chk("is_namedtuple_class:twin", a.is_namedtuple_class[2] = truth) \o
  Chk("is_namedtuple:engine", a.is_namedtuple[1] = truth) \o Chk("is_namedtuple:twin", a.is_namedtuple[2] = truth) \o
  \* no class defined in Python can be a PyStructSequence
  Chk("is_structseq_class", a.is_structseq_class[1] = FALSE /\ a.is_structseq_class[2] = FALSE /\ a.is_structseq[1] = FALSE /\ a.is_structseq[2] = FALSE) \o
  Chk("namedtuple_fields:twins-agree", a.namedtuple_fields[1] = a.namedtuple_fields[2]) \o
  Chk("structseq_fields:twins-agree", a.structseq_fields[1] = a.structseq_fields[2]) \o
  (IF Has(a, "instance") THEN Chk("instance", a.instance[1] = truth /\ a.instance[2] = truth /\ a.instance[3] = truth) ELSE <<>>)
ClassifyReal(c) ==
  LET a == c.ans IN
  Chk(c.name \o ":namedtuple", a.is_namedtuple_class[1] = c.truth_nt /\ a.is_namedtuple_class[2] = c.truth_nt) \o
  Chk(c.name \o ":structseq", a.is_structseq_class[1] = c.truth_ss /\ a.is_structseq_class[2] = c.truth_ss) \o
  Chk(c.name \o ":fields-twins-agree", a.namedtuple_fields[1] = a.namedtuple_fields[2] /\ a.structseq_fields[1] = a.structseq_fields[2])
CacheHistory(c) == Chk("answer-is-truth", \A j \in DOMAIN c.log : c.log[j].engine = NTRule(c.log[j].traits) /\ c.log[j].twin = NTRule(c.log[j].traits))
SortKeys(c) == Chk("engine", c.engine = TotalOrderSorted(c.keys)) \o Chk("twin", c.twin = TotalOrderSorted(c.keys))
\* one-level flattening through the Python registry vs the engine's view vs layer D
OneLevelCase(c) ==
  LET t == c.t  cfg == c.cfg
      isleaf == PredLeaf(t, cfg) \/ KindOf(t, cfg) = "leaf"
      k == KindOf(t, cfg)
      ord == ChildOrder(t, cfg, k)
      kids == [i \in 1..Len(ord) |-> t.ch[ord[i]]]
      nd == IF isleaf THEN LeafNode ELSE Flatten(t, [cfg EXCEPT !.haspred = FALSE]).spec.nodes[Len(Flatten(t, [cfg EXCEPT !.haspred = FALSE]).spec.nodes)]
  IN IF isleaf THEN Chk("leaf-type-rejected", c.py.err = "Value") \o Chk("engine-leaf", c.eng.leaf)
     ELSE Chk("no-error", c.py.err = "") \o
          (IF c.py.err # "" THEN <<>> ELSE
             Chk("children", c.py.children = kids) \o
             Chk("entries", c.py.entries = Entries(nd) /\ c.eng.entries = Entries(nd)) \o
             Chk("kind", c.py.kind = nd.kind /\ c.eng.kind = nd.kind) \o
             Chk("type", c.py.type = c.eng.type /\ c.py.type = (IF nd.kind = NNONE THEN 100 ELSE TypeTag(nd.kind, IF nd.kind = NCUSTOM THEN nd.cls ELSE nd.m))) \o
             Chk("path_entry_type", nd.kind = NNONE \/ (nd.kind = NCUSTOM /\ nd.cls \in {1, 4}) \/ c.py.pet = EntryCls(nd.kind, IF nd.kind = NCUSTOM THEN nd.cls ELSE nd.m)) \o
             Chk("metadata", CASE nd.kind \in {NDICT, NODICT} -> c.py.meta = nd.keys
                               [] nd.kind = NDDICT -> c.py.meta = <<nd.m>> \o nd.keys
                               [] nd.kind = NDEQUE -> c.py.meta = nd.m
                               [] nd.kind = NCUSTOM -> c.py.meta = nd.m
                               [] OTHER -> TRUE) \o
             Chk("unflatten_func", c.py.rebuilt = [Strip(t, [cfg EXCEPT !.haspred = FALSE]) EXCEPT !.ch = kids,
                                                   !.keys = IF IsDictKindName(k) THEN [i \in 1..Len(ord) |-> t.keys[ord[i]]] ELSE <<>>]) \o
             \* (derived treespecs inherit the parent's namespace; only the structure is compared here)
             Chk("children-specs", Has(c.py, "child_specs") =>
                    [i \in DOMAIN c.py.child_specs |-> c.py.child_specs[i].nodes] = [i \in DOMAIN c.eng.children |-> c.eng.children[i].nodes]))

\* ---- C19: optree dataclasses / partial ----------------------------------------------------------
DSel(l, P(_)) == SelectSeq([i \in 1..Len(l) |-> i], LAMBDA i : P(l[i]))
DataclassCase(c) ==
  LET l == c.layout
      rejOpt == \E i \in DOMAIN l : l[i].node /\ ~l[i].init
      children == DSel(l, LAMBDA d : d.node /\ d.init)
      metadata == DSel(l, LAMBDA d : d.init /\ ~d.node)
  IN IF c.std_err # "" THEN Chk("rejected-like-dataclasses", c.err # "")           \* whatever dataclasses rejects, optree rejects
     ELSE IF rejOpt THEN Chk("non-init-pytree-node-rejected", c.err = "Type")
     ELSE Chk("accepted", c.err = "") \o
          (IF c.err # "" THEN <<>> ELSE
             Chk("usable", ~Has(c, "use_err")) \o
             (IF Has(c, "use_err") THEN <<>> ELSE
                Chk("children-in-declaration-order", c.children = children) \o
                Chk("metadata-fields", c.metadata = metadata /\ c.meta_values_ok) \o
                Chk("leaves", c.leaves_ok /\ c.one_level_children_ok) \o
                Chk("entries-address-children-by-name", c.accessors_ok /\ c.entry_class = "DataclassEntry") \o
                Chk("round-trip", c.rebuilt_type_ok /\ c.rebuilt_equal /\ c.map_type_ok) \o
                Chk("post_init-rerun", c.post_init_rerun) \o
                Chk("node-only-in-its-namespace", c.leaf_in_other_namespace) \o
                Chk("decorating-twice-rejected", c.twice_rejected) \o
                (IF Has(c, "same_as_stdlib") THEN Chk("same-class-as-dataclasses", c.same_as_stdlib) ELSE <<>>)))
\* a dataclass registered by hand (AutoEntry, no explicit entries): integer entry i addresses the i-th __init__ field
DataclassHand(c) ==
  Chk("auto-entry-is-DataclassEntry", c.entry_class = "DataclassEntry" /\ c.entries_are_ints) \o
  Chk("accessor-addresses-the-leaf", \A j \in DOMAIN c.accessor_hits : c.accessor_hits[j]) \o
  Chk("codify-evaluates-to-the-leaf", \A j \in DOMAIN c.codify_hits : c.codify_hits[j]) \o
  Chk("field-name-is-the-init-field", c.fields = c.init_names)

PartialCase(c) ==
  Chk("flattens-to-(args,keywords)-in-every-namespace",
      c["leaves_ok[]"] /\ c["leaves_ok[a]"] /\ c["leaves_ok[never-used-namespace]"]
      /\ c["children_ok[]"] /\ c["children_ok[a]"] /\ c["children_ok[never-used-namespace]"]
      /\ c["entries[]"] = <<"args", "keywords">>) \o
  Chk("metadata-is-the-callable", c.metadata_is_func) \o
  Chk("never-merged-with-nested-partial", c.not_merged) \o
  Chk("rebuilt-partial-calls-with-mapped-arguments", c.mapped_type /\ c.call_after_map) \o
  Chk("round-trip", c.roundtrip)

\* ---- C20: tree_ravel / unravel -------------------------------------------------------------------
RavelCase(c) ==
  Chk("no-error", c.err = "") \o
  (IF c.err # "" THEN <<>> ELSE
     Chk("flat-is-1d-of-total-length", c.flat_is_1d /\ c.flat_len = c.total) \o
     Chk("flat-is-concatenation-in-leaf-order", c.flat_values_ok) \o
     Chk("flat-dtype-is-the-promotion", c.flat_dtype_ok) \o
     Chk("unravel(ravel(t))=t", c.structure_ok /\ c.shapes_ok /\ c.dtypes_ok /\ c.values_ok) \o
     (IF c.ls = <<>> THEN Chk("empty-tree", c.empty_ok)
      ELSE Chk("ravel(unravel(v))=v", c.ravel_unravel_v) \o
           Chk("wrong-shape-rejected", c.wrong_len_rejected /\ c.wrong_rank_rejected) \o
           Chk("wrong-dtype-rejected-iff-mixed", c.mixed => c.wrong_dtype_rejected)))

\* ---- C14: immutability along heap histories ------------------------------------------------------
HeapCase(c) ==
  Concat([j \in DOMAIN c.steps |->
     LET st == c.steps[j] IN
     Chk(st.a \o ":treespec-unchanged", st.spec_changed = <<>>) \o
     Chk(st.a \o ":operand-treespecs-unchanged", st.operand_changed = <<>>) \o
     Chk(st.a \o ":inputs-not-mutated", ~st.inputs_mutated /\ ~st.leaf_list_mutated) \o
     Chk(st.a \o ":no-unexpected-error", st.err = "") \o
     Chk(st.a \o ":treespec-reads-trees-with-its-own-registration", st.own_reg_ok) \o
     (IF Has(st, "leaves_retained") THEN Chk(st.a \o ":no-reference-to-leaves", st.leaves_retained = 0) ELSE <<>>)])
HeapGc(c) == Chk("cycles-through-metadata-collected", c.metadata_cycles_collected = 3 /\ c.factory_cycle_collected) \o
             Chk("no-refcount-leak", c.class_refcount_delta = 0) \o
             Chk("treespec-keeps-its-registration-alive", c.registration_alive_while_spec_lives /\ c.spec_works_after_unregister_and_gc) \o
             Chk("registration-released-with-the-treespec", c.registration_released_with_spec)

\* the same tree under two option sets
XOptCase(c) ==
  LET exp == SpecEq(c.sa, c.sb) IN
  Chk("eq", c.ab = exp /\ c.ba = exp /\ c.ne = ~exp) \o
  Chk("hash-contract", c.ab => c.hash_eq) \o
  Chk("set-membership", c.ab => c.set_size = 1) \o
  Chk("flatten-1", Flatten(c.t, c.cfg1).spec = c.sa) \o Chk("flatten-2", Flatten(c.t, c.cfg2).spec = c.sb)

\* treespecs made under different option sets: the mismatch rules of ==, <=, compose, broadcast, transform, transpose (A6-A10)
XSpecCase(c) ==
  LET sa == c.sa  sb == c.sb
      e == SpecEq(sa, sb)  p == SpecPrefix(sa, sb, FALSE)  ps == SpecPrefix(sa, sb, TRUE)
      cm == Compose(sa, sb)  l == Lub(sa, sb)
      tr == Transpose(sa, sb, [k \in 1..(NumLeaves(sa) * NumLeaves(sb)) |-> k])
  IN Chk("eq", c.eq.err = "" /\ c.eq.v[1] = e /\ c.eq.v[2] = e /\ c.eq.v[3] = ~e /\ (e => c.eq.v[4])) \o
     Chk("is_prefix", c.is_prefix.err = "" /\ c.is_prefix.v = <<p, ps, p, p, ps>>) \o
     Chk("compose", IF IsErr(cm) THEN c.compose.err = cm.err ELSE c.compose.err = "" /\ c.compose.v = cm.spec) \o
     \* (with no leaf to replace the leaf function is never consulted, so a mismatch cannot be noticed by transform)
     Chk("transform-leaf", IF IsErr(cm) THEN (NumLeaves(sa) > 0 => c.transform_leaf.err = cm.err)
                           ELSE c.transform_leaf.err = "" /\ SpecEq(c.transform_leaf.v, cm.spec) /\ c.transform_leaf.v.nodes = cm.spec.nodes) \o
     Chk("broadcast_to_common_suffix", IF IsErr(l) THEN c.bcs.err = l.err ELSE c.bcs.err = "" /\ c.bcs.v = l.spec) \o
     Chk("transpose", IF IsErr(tr) THEN c.transpose.err = tr.err ELSE c.transpose.err = "")

PairCase(c) ==
  (IF InSeq("eq", c.fams) THEN EqClauses(c) ELSE <<>>) \o
  (IF InSeq("prefix", c.fams) THEN PrefixClauses(c) ELSE <<>>) \o
  (IF InSeq("broadcast", c.fams) THEN BroadcastClauses(c) ELSE <<>>) \o
  (IF InSeq("compose", c.fams) THEN ComposeClauses(c) ELSE <<>>)

\* ---- treespec_from_collection / named constructors on collections of treespecs made under other option sets --------
FromCollCase(c) ==
  LET e == MakeFromCollection(c.t, c.kidspecs, c.cfg) IN
  Concat([j \in DOMAIN c.outs |->
     LET o == c.outs[j] IN
     IF IsErr(e) THEN Chk(o.via \o ":error-class", o.err = e.err)
     ELSE Chk(o.via \o ":no-error", o.err = "") \o
          (IF o.err # "" THEN <<>> ELSE
             Chk(o.via \o ":spec", o.spec = e.spec) \o
             Chk(o.via \o ":wellformed", WellFormed(o.spec.nodes)) \o
             Chk(o.via \o ":leaf-warning", o.warned = e.warn))])

\* ---- unflatten -----------------------------------------------------------------------------
UnflattenCase(c) ==
  LET exp == Unflatten(c.spec, c.leaves, UNION {SubTrees(c.pool[i]) : i \in DOMAIN c.pool})
      o == c.out
  IN IF IsErr(exp) THEN Chk("errclass", o.err = exp.err)
     ELSE Chk("unexpected-error", o.err = "") \o
          (IF o.err # "" THEN <<>> ELSE Chk("tree", o.tree = exp.tree))

\* ---- inspection of a treespec --------------------------------------------------------------
InspectCase(c) ==
  LET s == c.spec  o == c.out  r == Root(s)  cs == Children(s) IN
  Chk("wellformed", WellFormed(s.nodes)) \o
  Chk("num_leaves", o.num_leaves = NumLeaves(s)) \o
  Chk("num_nodes", o.num_nodes = NumNodes(s)) \o
  Chk("num_children", o.num_children = NumChildren(s)) \o
  Chk("len", o.len = NumLeaves(s)) \o
  Chk("kind", o.kind = r.kind) \o
  Chk("type", o.type = IF r.kind = NLEAF THEN 0 ELSE IF r.kind = NNONE THEN 100
                        ELSE TypeTag(r.kind, IF r.kind = NCUSTOM THEN r.cls ELSE r.m)) \o
  Chk("is_leaf", o.is_leaf = IsLeafSpec(s, FALSE) /\ o.is_strict_leaf = IsLeafSpec(s, TRUE)) \o
  Chk("is_one_level", o.is_one_level = IsOneLevel(s)) \o
  Chk("paths", o.paths = Paths(s)) \o
  Chk("accessors", o.accs = ExpAccs(s)) \o
  Chk("entries", o.entries = Entries(r)) \o
  Chk("children", o.children = cs) \o
  Chk("one_level", IF IsLeafSpec(s, TRUE) THEN o.one_level_none ELSE ~o.one_level_none /\ o.one_level = OneLevel(s)) \o
  Chk("child(i)", \A j \in DOMAIN o.child :
                     LET e == Child(s, o.child[j].i) IN
                     IF IsErr(e) THEN o.child[j].err = e.err ELSE o.child[j].err = "" /\ o.child[j].v = e.v) \o
  Chk("entry(i)", \A j \in DOMAIN o.entry :
                     LET e == Entry(s, o.entry[j].i) IN
                     IF IsErr(e) THEN o.entry[j].err = e.err ELSE o.entry[j].err = "" /\ o.entry[j].v = e.v) \o
  Chk("repr", o.repr = ReprSpec(s) /\ o.str_is_repr) \o
  Chk("function-spellings-and-alias-modules", o.function_forms_equal) \o
  Concat([j \in DOMAIN o.routes |->
     LET rr == o.routes[j] IN
     Chk("rebuild:" \o rr.route \o ":no-error", rr.err = "") \o
     (IF rr.err # "" THEN <<>> ELSE
        Chk("rebuild:" \o rr.route \o ":equal", SpecEq(rr.spec, s) /\ rr.eq /\ HashKeyDoc(rr.spec) = HashKeyDoc(s)) \o
        Chk("rebuild:" \o rr.route \o ":paths", rr.paths = Paths(s)) \o
        Chk("rebuild:" \o rr.route \o ":wellformed", WellFormed(rr.spec.nodes) /\ rr.spec.nil = s.nil))]) \o
  Chk("children-sum", NumNodes(s) > 1 =>
                         /\ SeqSum([i \in DOMAIN o.children |-> NumLeaves(o.children[i])]) = o.num_leaves
                         /\ SeqSum([i \in DOMAIN o.children |-> NumNodes(o.children[i])]) = o.num_nodes - 1)

\* the lazy iterator over a mutable heap: a recorded program is accepted iff every call returned what IterSem!Step predicts
IS == INSTANCE IterSem
Verdict(c) ==
  CASE c.op = "flatten" -> FlattenFamily(c)
    [] c.op = "unflatten" -> UnflattenCase(c)
    [] c.op = "roundtrip" -> RoundTrip(c)
    [] c.op = "c02laws" -> C02Laws(c)
    [] c.op = "c03extra" -> C03Extra(c)
    [] c.op = "depth" -> DepthCase(c)
    [] c.op = "class-object-leaf" -> Chk(c.name \o ":is-a-leaf", c.err = "" /\ c.ok)
    [] c.op = "pair" -> PairCase(c)
    [] c.op = "xopt" -> XOptCase(c)
    [] c.op = "xspec" -> XSpecCase(c)
    [] c.op = "hash-history" -> Chk(c.kind \o ":hash-contract-after-a-failed-hash", c.raised /\ c.eq /\ c.hash_eq /\ c.stable /\ c.in_set /\ c.repr_ok)
    [] c.op = "map" -> MapCase(c)
    [] c.op = "transpose" -> TransposeCase(c)
    [] c.op = "pickle" -> PickleCase(c)
    [] c.op = "pickle-dual" -> Chk(c.where \o ":rebound-to-the-recorded-namespace-registration",
                                   c.bound_to_namespace_registration /\ c.not_the_global_registration /\ c.paths /\ c.unflatten /\ c.repr)
    [] c.op = "pickle-history" -> Chk("pickle-generations-1-2-3-equal", c.generations_equal) \o
                                  Chk("load-after-unregister-raises", c.load_after_unregister_raises) \o
                                  Chk("load-after-reregister-bound-to-the-current-registration", c.load_after_reregister_bound_to_current /\ c.old_treespec_alive)
    [] c.op = "dataclass" -> DataclassCase(c)
    [] c.op = "partial" -> PartialCase(c)
    [] c.op = "dataclass-hand" -> DataclassHand(c)
    [] c.op = "dataclass-args" -> Chk("empty-namespace", c.res["empty-namespace"] = "Value") \o Chk("non-string-namespace", c.res["non-string-namespace"] = "Type")
                                  \o Chk("non-class", c.res["non-class"] = "Type")
    [] c.op = "heap" -> HeapCase(c)
    [] c.op = "heap-gc" -> HeapGc(c)
    [] c.op = "ravel" -> RavelCase(c)
    [] c.op = "ravel-backends" -> Chk("numpy-jax-torch-available", Len(c.available) = 3)
    [] c.op = "classify" -> ClassifyCase(c)
    [] c.op = "classify-real" -> ClassifyReal(c)
    [] c.op = "cache-history" -> CacheHistory(c)
    [] c.op = "sortkeys" -> SortKeys(c)
    [] c.op = "onelevel" -> OneLevelCase(c)
    [] c.op = "inspect" -> InspectCase(c)
    [] c.op = "fromcoll" -> FromCollCase(c)
    [] c.op = "itertrace" -> IS!Replay(IS!S0(c.shape), c.calls, 1, <<>>)
    [] OTHER -> <<"unknown-op">>

\* what the specification expects for a case (used by tools/explain.py to annotate replay files)
Expected(c) ==
  CASE c.op = "flatten" -> Flatten(c.t, c.cfg)
    [] c.op = "unflatten" -> Unflatten(c.spec, c.leaves, UNION {SubTrees(c.pool[i]) : i \in DOMAIN c.pool})
    [] c.op = "roundtrip" -> [strip |-> Strip(c.t, c.cfg), unflat |-> Unflatten(c.flat.spec, c.flat.leaves, SubTrees(c.t))]
    [] c.op = "pair" -> [prefix |-> SpecPrefix(c.sa, c.sb, FALSE), strict |-> SpecPrefix(c.sa, c.sb, TRUE), eq |-> SpecEq(c.sa, c.sb),
                         fut |-> FlattenUpTo(c.sa, c.b, [c.cfg EXCEPT !.haspred = FALSE]), lub |-> Lub(c.sa, c.sb), compose |-> Compose(c.sa, c.sb)]
    [] OTHER -> "n/a"

Inv == lo = hi => LET v == Verdict(Cases[lo]) IN
                  IF v = <<>> THEN TRUE ELSE PrintT(<<"FAIL", lo, v>>)
=============================================================================
