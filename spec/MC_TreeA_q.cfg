SPECIFICATION Spec
CONSTANTS
  MaxNodes = 4
  MaxStack = 2
  MaxArity = 2
  Kinds = {"none", "tuple", "list", "dict", "odict"}
  KeyU <- MCKeyU
  NtCls <- MCNtCls
  CustomCls <- MCCustomCls
  Metas = {1}
  MaxLens = {0}
  Factories = {0}
  Reg0 <- MCReg0
  NsSet = {"", "a", "zz"}
  ModeSet <- MCModeSet
  PredSet <- MCPredSet
  Depth = 10
INVARIANT SingleInv
INVARIANT PairInv
CHECK_DEADLOCK FALSE
